// verif-instrument rewrites the non-test Go files of the given package
// directories (of a SCRATCH COPY of varlink/go, never /repo itself) so that the
// deterministic simulator owns every scheduling decision:
//
//   - simhook.Yield("file:line") before every statement and at the end of every
//     loop body;
//   - go statements become simhook.Go(site, func(){...}) with the function value
//     and the arguments still evaluated at the go statement;
//   - sync.Mutex / sync.RWMutex / sync.Pool / sync.Once types become
//     simhook.Mutex / simhook.RWMutex / simhook.Pool / simhook.Once;
//   - select statements with several communication clauses poll their clauses
//     in an order the simulator chooses (simhook.Select).
//
// It is purely syntactic and knows nothing about the code it rewrites.
package main

import (
	"bytes"
	"fmt"
	"go/ast"
	"go/format"
	"go/parser"
	"go/printer"
	"go/token"
	"os"
	"path/filepath"
	"strconv"
	"strings"
)

const hookImport = "github.com/varlink/go/varlink/simhook"

type inst struct {
	fset   *token.FileSet
	rel    string
	nYield int
	nGo    int
	nMutex int
	nSel   int
	tmp    int
	sites  []string
}

func main() {
	if len(os.Args) < 3 {
		fmt.Fprintln(os.Stderr, "usage: verif-instrument <root> <pkgdir>...")
		os.Exit(2)
	}
	root := os.Args[1]
	total := inst{}
	for _, dir := range os.Args[2:] {
		ents, err := os.ReadDir(dir)
		if err != nil {
			fmt.Fprintln(os.Stderr, "verif-instrument:", err)
			os.Exit(2)
		}
		for _, e := range ents {
			n := e.Name()
			if e.IsDir() || !strings.HasSuffix(n, ".go") || strings.HasSuffix(n, "_test.go") {
				continue
			}
			// files added by the pipeline itself are not instrumented
			if strings.HasPrefix(n, "verif_") || n == "listen_sim.go" {
				continue
			}
			p := filepath.Join(dir, n)
			rel, _ := filepath.Rel(root, p)
			in := &inst{fset: token.NewFileSet(), rel: rel}
			if err := in.file(p); err != nil {
				fmt.Fprintf(os.Stderr, "verif-instrument: %s: %v\n", p, err)
				os.Exit(2)
			}
			total.nYield += in.nYield
			total.nGo += in.nGo
			total.nMutex += in.nMutex
			total.nSel += in.nSel
			total.sites = append(total.sites, in.sites...)
		}
	}
	fmt.Printf("{\"yields\":%d,\"gos\":%d,\"mutexes\":%d,\"selects\":%d}\n", total.nYield, total.nGo, total.nMutex, total.nSel)
}

func (in *inst) file(path string) error {
	src, err := os.ReadFile(path)
	if err != nil {
		return err
	}
	f, err := parser.ParseFile(in.fset, path, src, parser.ParseComments)
	if err != nil {
		return err
	}
	// build constraints such as "+build windows" files are still rewritten;
	// they are simply not compiled.
	syncName := ""
	for _, im := range f.Imports {
		if im.Path.Value == `"sync"` {
			syncName = "sync"
			if im.Name != nil {
				syncName = im.Name.Name
			}
		}
	}
	for _, d := range f.Decls {
		if fd, ok := d.(*ast.FuncDecl); ok && fd.Body != nil {
			in.block(fd.Body)
		}
		if gd, ok := d.(*ast.GenDecl); ok {
			// function literals in package-level initialisers
			ast.Inspect(gd, func(n ast.Node) bool {
				if fl, ok := n.(*ast.FuncLit); ok {
					in.block(fl.Body)
					return false
				}
				return true
			})
		}
	}
	if syncName != "" && syncName != "_" && syncName != "." {
		ast.Inspect(f, func(n ast.Node) bool {
			se, ok := n.(*ast.SelectorExpr)
			if !ok {
				return true
			}
			id, ok := se.X.(*ast.Ident)
			if !ok || id.Name != syncName || id.Obj != nil {
				return true
			}
			if se.Sel.Name == "Mutex" || se.Sel.Name == "RWMutex" || se.Sel.Name == "Pool" || se.Sel.Name == "Once" {
				id.Name = "simhook"
				in.nMutex++
			}
			return true
		})
	}
	if in.nYield+in.nGo+in.nMutex+in.nSel == 0 {
		return nil
	}
	var buf bytes.Buffer
	// Comments are dropped from the output on purpose: with statements
	// inserted everywhere their positions would be meaningless, and build
	// constraints are re-emitted explicitly below.
	var constraints []string
	for _, cg := range f.Comments {
		if cg.Pos() >= f.Package {
			break
		}
		for _, c := range cg.List {
			t := strings.TrimSpace(c.Text)
			if strings.HasPrefix(t, "//go:build") || strings.HasPrefix(t, "// +build") || strings.HasPrefix(t, "//+build") {
				constraints = append(constraints, c.Text)
			}
		}
	}
	f.Comments = nil
	f.Doc = nil
	for _, c := range constraints {
		buf.WriteString(c + "\n")
	}
	if len(constraints) > 0 {
		buf.WriteString("\n")
	}
	// add the import
	imp := &ast.GenDecl{Tok: token.IMPORT, Specs: []ast.Spec{&ast.ImportSpec{
		Name: ast.NewIdent("simhook"),
		Path: &ast.BasicLit{Kind: token.STRING, Value: strconv.Quote(hookImport)},
	}}}
	f.Decls = append([]ast.Decl{imp}, f.Decls...)
	if syncName == "sync" {
		// keep the import used even if every sync.X was replaced
		f.Decls = append(f.Decls, &ast.GenDecl{Tok: token.VAR, Specs: []ast.Spec{&ast.ValueSpec{
			Names: []*ast.Ident{ast.NewIdent("_")},
			Type:  &ast.SelectorExpr{X: ast.NewIdent("sync"), Sel: ast.NewIdent("Locker")},
		}}})
	}
	stripPos(f)
	var out bytes.Buffer
	if err := format.Node(&out, token.NewFileSet(), f); err != nil {
		return err
	}
	buf.Write(out.Bytes())
	return os.WriteFile(path, buf.Bytes(), 0o644)
}

// stripPos removes every comment still attached to a node; go/format copes
// with the mixed positions once no comment is left to place.
func stripPos(f *ast.File) {
	ast.Inspect(f, func(n ast.Node) bool {
		switch n := n.(type) {
		case *ast.FuncDecl:
			n.Doc = nil
		case *ast.GenDecl:
			n.Doc = nil
		case *ast.TypeSpec:
			n.Doc, n.Comment = nil, nil
		case *ast.ValueSpec:
			n.Doc, n.Comment = nil, nil
		case *ast.ImportSpec:
			n.Doc, n.Comment = nil, nil
		case *ast.Field:
			n.Doc, n.Comment = nil, nil
		}
		return true
	})
}

func (in *inst) site(p token.Pos) string {
	pos := in.fset.Position(p)
	return fmt.Sprintf("%s:%d", in.rel, pos.Line)
}

func (in *inst) yield(p token.Pos) ast.Stmt {
	in.nYield++
	s := in.site(p)
	in.sites = append(in.sites, s)
	return &ast.ExprStmt{X: &ast.CallExpr{
		Fun:  &ast.SelectorExpr{X: ast.NewIdent("simhook"), Sel: ast.NewIdent("Yield")},
		Args: []ast.Expr{&ast.BasicLit{Kind: token.STRING, Value: strconv.Quote(s)}},
	}}
}

func (in *inst) block(b *ast.BlockStmt) {
	if b == nil {
		return
	}
	b.List = in.list(b.List)
}

func (in *inst) list(l []ast.Stmt) []ast.Stmt {
	out := make([]ast.Stmt, 0, 2*len(l))
	for _, s := range l {
		pos := s.Pos()
		s = in.stmt(s)
		if _, isDecl := s.(*ast.DeclStmt); isDecl {
			// no yield before const/type/var declarations: harmless, and
			// keeps "declared and not used" style diagnostics unchanged
			out = append(out, s)
			continue
		}
		out = append(out, in.yield(pos), s)
	}
	return out
}

// exprs processes function literals nested in expressions.
func (in *inst) exprs(n ast.Node) {
	if n == nil {
		return
	}
	ast.Inspect(n, func(x ast.Node) bool {
		if fl, ok := x.(*ast.FuncLit); ok {
			in.block(fl.Body)
			return false
		}
		return true
	})
}

func (in *inst) stmt(s ast.Stmt) ast.Stmt {
	switch s := s.(type) {
	case *ast.BlockStmt:
		in.block(s)
	case *ast.IfStmt:
		if s.Init != nil {
			in.exprs(s.Init)
		}
		in.exprs(s.Cond)
		in.block(s.Body)
		if s.Else != nil {
			s.Else = in.stmt(s.Else)
		}
	case *ast.ForStmt:
		if s.Init != nil {
			in.exprs(s.Init)
		}
		if s.Cond != nil {
			in.exprs(s.Cond)
		}
		if s.Post != nil {
			in.exprs(s.Post)
		}
		in.block(s.Body)
		s.Body.List = append(s.Body.List, in.yield(s.Body.Rbrace))
	case *ast.RangeStmt:
		in.exprs(s.X)
		in.block(s.Body)
		s.Body.List = append(s.Body.List, in.yield(s.Body.Rbrace))
	case *ast.SwitchStmt:
		if s.Init != nil {
			in.exprs(s.Init)
		}
		if s.Tag != nil {
			in.exprs(s.Tag)
		}
		in.clauses(s.Body)
	case *ast.TypeSwitchStmt:
		if s.Init != nil {
			in.exprs(s.Init)
		}
		in.exprs(s.Assign)
		in.clauses(s.Body)
	case *ast.SelectStmt:
		in.clauses(s.Body)
		return in.selectStmt(s)
	case *ast.LabeledStmt:
		s.Stmt = in.stmt(s.Stmt)
	case *ast.GoStmt:
		return in.goStmt(s)
	case *ast.DeferStmt:
		in.exprs(s.Call)
	default:
		in.exprs(s)
	}
	return s
}

func (in *inst) clauses(b *ast.BlockStmt) {
	for _, c := range b.List {
		switch c := c.(type) {
		case *ast.CaseClause:
			for _, e := range c.List {
				in.exprs(e)
			}
			c.Body = in.clauseList(c.Body)
		case *ast.CommClause:
			if c.Comm != nil {
				in.exprs(c.Comm)
			}
			c.Body = in.clauseList(c.Body)
		}
	}
}

func (in *inst) clauseList(l []ast.Stmt) []ast.Stmt {
	return in.list(l)
}

func (in *inst) fresh(prefix string) *ast.Ident {
	in.tmp++
	return ast.NewIdent(fmt.Sprintf("verif%s%d", prefix, in.tmp))
}

// goStmt turns `go f(a, b)` into
//
//	{ vf, va, vb := f, a, b; simhook.Go(site, func() { vf(va, vb) }) }
//
// Literal arguments and plain (package-level or local) function identifiers
// stay in place so that untyped constants keep their meaning.
func (in *inst) goStmt(g *ast.GoStmt) ast.Stmt {
	in.nGo++
	site := &ast.BasicLit{Kind: token.STRING, Value: strconv.Quote(in.site(g.Pos()))}
	call := g.Call
	var lhs, rhs []ast.Expr
	newCall := &ast.CallExpr{Ellipsis: call.Ellipsis}
	if call.Ellipsis != token.NoPos {
		newCall.Ellipsis = 1
	}
	switch fn := call.Fun.(type) {
	case *ast.FuncLit:
		in.block(fn.Body)
		if len(call.Args) == 0 {
			return &ast.ExprStmt{X: &ast.CallExpr{
				Fun:  &ast.SelectorExpr{X: ast.NewIdent("simhook"), Sel: ast.NewIdent("Go")},
				Args: []ast.Expr{site, fn},
			}}
		}
		id := in.fresh("F")
		lhs, rhs = append(lhs, id), append(rhs, fn)
		newCall.Fun = id
	case *ast.Ident:
		newCall.Fun = fn
	default:
		in.exprs(fn)
		id := in.fresh("F")
		lhs, rhs = append(lhs, id), append(rhs, call.Fun)
		newCall.Fun = id
	}
	for _, a := range call.Args {
		in.exprs(a)
		if _, lit := a.(*ast.BasicLit); lit {
			newCall.Args = append(newCall.Args, a)
			continue
		}
		if id, ok := a.(*ast.Ident); ok && (id.Name == "nil" || id.Name == "true" || id.Name == "false") {
			newCall.Args = append(newCall.Args, a)
			continue
		}
		id := in.fresh("A")
		lhs, rhs = append(lhs, id), append(rhs, a)
		newCall.Args = append(newCall.Args, id)
	}
	goCall := &ast.ExprStmt{X: &ast.CallExpr{
		Fun: &ast.SelectorExpr{X: ast.NewIdent("simhook"), Sel: ast.NewIdent("Go")},
		Args: []ast.Expr{site, &ast.FuncLit{
			Type: &ast.FuncType{Params: &ast.FieldList{}},
			Body: &ast.BlockStmt{List: []ast.Stmt{&ast.ExprStmt{X: newCall}}},
		}},
	}}
	if len(lhs) == 0 {
		return goCall
	}
	return &ast.BlockStmt{List: []ast.Stmt{
		&ast.AssignStmt{Lhs: lhs, Tok: token.DEFINE, Rhs: rhs},
		goCall,
	}}
}

// cloneStmt deep-copies a statement by printing and re-parsing it.
func (in *inst) cloneStmt(s ast.Stmt) (ast.Stmt, error) {
	var buf bytes.Buffer
	buf.WriteString("package p\nfunc _() {\nselect {\n")
	if err := printer.Fprint(&buf, in.fset, s); err != nil {
		return nil, err
	}
	buf.WriteString("\n}\n}\n")
	f, err := parser.ParseFile(token.NewFileSet(), "clone.go", buf.Bytes(), 0)
	if err != nil {
		return nil, fmt.Errorf("re-parse of cloned select clause: %v\n%s", err, buf.String())
	}
	sel := f.Decls[0].(*ast.FuncDecl).Body.List[0].(*ast.SelectStmt)
	return sel.Body.List[0], nil
}

// selectStmt makes the choice among several ready communication clauses a
// decision of the simulator instead of the runtime's random pick:
//
//	select { case A: a; case B: b }
//
// becomes
//
//	switch simhook.Select(site, 2) {
//	case 0: select { case A: a; default: select { case B: b; default: select { case A: a; case B: b } } }
//	case 1: select { case B: b; default: select { case A: a; default: select { case A: a; case B: b } } }
//	}
//
// i.e. the clauses are polled in a rotation chosen by the simulator and the
// original select only runs (and blocks) when none was ready. Clause bodies
// are duplicated textually; `break` keeps its meaning (it leaves the
// statement). Selects with fewer than two communication clauses are left alone.
func (in *inst) selectStmt(s *ast.SelectStmt) ast.Stmt {
	var comm []*ast.CommClause
	for _, c := range s.Body.List {
		if cc, ok := c.(*ast.CommClause); ok && cc.Comm != nil {
			comm = append(comm, cc)
		}
	}
	k := len(comm)
	if k < 2 {
		return s
	}
	in.nSel++
	site := &ast.BasicLit{Kind: token.STRING, Value: strconv.Quote(in.site(s.Pos()))}
	sw := &ast.SwitchStmt{
		Tag: &ast.CallExpr{
			Fun:  &ast.SelectorExpr{X: ast.NewIdent("simhook"), Sel: ast.NewIdent("Select")},
			Args: []ast.Expr{site, &ast.BasicLit{Kind: token.INT, Value: strconv.Itoa(k)}},
		},
		Body: &ast.BlockStmt{},
	}
	cloneSel := func() ast.Stmt {
		out := &ast.SelectStmt{Body: &ast.BlockStmt{}}
		for _, c := range s.Body.List {
			cl, err := in.cloneStmt(c)
			if err != nil {
				fmt.Fprintln(os.Stderr, "verif-instrument:", err)
				os.Exit(2)
			}
			out.Body.List = append(out.Body.List, cl)
		}
		return out
	}
	for p := 0; p < k; p++ {
		var inner ast.Stmt = cloneSel()
		for j := k - 1; j >= 0; j-- {
			c := comm[(p+j)%k]
			cl, err := in.cloneStmt(c)
			if err != nil {
				fmt.Fprintln(os.Stderr, "verif-instrument:", err)
				os.Exit(2)
			}
			inner = &ast.SelectStmt{Body: &ast.BlockStmt{List: []ast.Stmt{
				cl,
				&ast.CommClause{Body: []ast.Stmt{inner}},
			}}}
		}
		var list []ast.Expr
		if p < k-1 {
			list = []ast.Expr{&ast.BasicLit{Kind: token.INT, Value: strconv.Itoa(p)}}
		}
		sw.Body.List = append(sw.Body.List, &ast.CaseClause{List: list, Body: []ast.Stmt{inner}})
	}
	return sw
}
