package main

import (
	"encoding/json"
	"fmt"
	"os"
	"os/exec"
	"path/filepath"
	"strings"
	"sync"
	"time"
)

// The real-kernel leg of C19 (DESIGN.md §4 C19 (b)): seeded address /
// environment-fault histories against real sockets, built from an
// un-instrumented copy of the working tree with one test file added.

// kHistory is a history of a real-kernel leg, kept as the JSON the test wrote.
type kHistory struct {
	raw  json.RawMessage
	Seed int64
}

func (h *kHistory) UnmarshalJSON(b []byte) error {
	h.raw = append(json.RawMessage{}, b...)
	var s struct {
		Seed int64 `json:"seed"`
	}
	json.Unmarshal(b, &s)
	h.Seed = s.Seed
	return nil
}

func (h kHistory) MarshalJSON() ([]byte, error) {
	if h.raw == nil {
		return []byte("null"), nil
	}
	return h.raw, nil
}

type kViolation struct {
	Clause  string   `json:"clause"`
	Key     string   `json:"key"`
	Detail  string   `json:"detail"`
	History kHistory `json:"history"`
}

type kSummary struct {
	Runs       int            `json:"runs"`
	Steps      int            `json:"steps"`
	Distinct   int            `json:"distinct"`
	Counters   map[string]int `json:"counters"`
	Violations []kViolation   `json:"violations"`
	Samples    []kHistory     `json:"samples"`
	Hung       bool           `json:"hung"`
}

// realLeg describes one real-kernel leg.
type realLeg struct {
	test  string // test function
	what  string
	quick int // histories in the quick tier
}

var realLegs = map[string]realLeg{
	"C19": {"TestVerifC19Kernel", "NOT simulated: seeded address / environment-fault histories (stale socket, regular file, directory, missing parent, foreign listener) on the real kernel for filesystem, abstract and tcp endpoints; Bind / DoListen / Listen / Shutdown / NewConnection+GetInfo with the same string, in a private temporary directory; paths with '@' inside and '..' across directories and a symbolic link; a successor service binding the address while the first serving call winds down; Bind under an ended context", 4000},
	"C15": {"TestVerifC15Kernel", "NOT simulated: serving with an idle timeout (20-120 ms) on the real listener types (filesystem unix, abstract unix, tcp; Listen and Bind+DoListen): an unvisited service stops by itself with the timeout error (late after 5 s, never after 20 s), so does a service whose last connection has just ended, and a service does not stop while a connection that was opened before the first expiry, and served, is still open (an ordering fact)", 240},
	"C17": {"TestVerifC17Transports", "NOT simulated: seeded cancellation histories (cancel / deadline / far deadline cancelled early; before the call, while blocked with nothing in flight, with a late reply, during a blocked 24 MiB write, serving context) over the four real transports (filesystem unix socket, abstract unix socket, tcp, bridge subprocess = this test binary re-executed through sh -c by varlink.NewBridge): latency and error of the cancelled operation (700 ms bound, peer silent for 1500 ms), re-use of the connection with a live context, leftover goroutines", 320},
	"C03": {"TestVerifC03Transports", "NOT simulated: seeded call / reply / more-sequence round trips over the four real transports (filesystem unix socket, abstract unix socket, tcp, bridge subprocess = this test binary re-executed through sh -c by varlink.NewBridge), parameters compared as JSON with number lexemes; connections dialled under a context that ends right after the connect; a oneway call with up to 4 MiB of parameters followed by Close at once (the handler must still read it)", 600},
}

func buildKernelLeg() (string, string) {
	scratch, err := os.MkdirTemp("", "verif-kbuild-")
	if err != nil {
		fatal2("mktemp: %v", err)
	}
	repo := filepath.Join(scratch, "repo")
	must := func(err error) {
		if err != nil {
			os.RemoveAll(scratch)
			fatal2("kernel-leg build: %v", err)
		}
	}
	must(copyFile(filepath.Join(repoDir, "go.mod"), filepath.Join(repo, "go.mod")))
	must(copyFile(filepath.Join(repoDir, "go.sum"), filepath.Join(repo, "go.sum")))
	must(copyTree(filepath.Join(repoDir, "varlink"), filepath.Join(repo, "varlink"), func(rel string, isDir bool) bool {
		return !isDir && strings.HasSuffix(rel, "_test.go")
	}))
	legFiles, _ := filepath.Glob(filepath.Join(verifDir, "kernel_leg/*_test.go"))
	for _, f := range legFiles {
		must(copyFile(f, filepath.Join(repo, "varlink", "verif_"+filepath.Base(f))))
	}
	bin := filepath.Join(scratch, "k.test")
	out, err := run(repo, goEnv(), "go1.26.8", "test", "-c", "-trimpath", "-o", bin, "./varlink/")
	if err != nil {
		os.RemoveAll(scratch)
		fatal2("kernel-leg build failed:\n%s", out)
	}
	return scratch, bin
}

func runKernelProc(scratch, bin, test, tag string, spec map[string]interface{}, timeout time.Duration) (*kSummary, error) {
	outPath := filepath.Join(scratch, "kout-"+tag+".json")
	spec["out"] = outPath
	sb, _ := json.Marshal(spec)
	specPath := filepath.Join(scratch, "kspec-"+tag+".json")
	os.WriteFile(specPath, sb, 0o644)
	cmd := exec.Command(bin, "-test.run", "^"+test+"$", "-test.timeout", "0")
	cmd.Env = append(os.Environ(), "VERIF_KSPEC="+specPath)
	cmd.Dir = scratch
	done := make(chan error, 1)
	var outb []byte
	go func() {
		var err error
		outb, err = cmd.CombinedOutput()
		done <- err
	}()
	select {
	case <-done:
	case <-time.After(timeout):
		if cmd.Process != nil {
			cmd.Process.Kill()
		}
		<-done
		return nil, fmt.Errorf("kernel-leg worker %s: watchdog after %v\n%s", tag, timeout, tailBytes(outb, 1500))
	}
	raw, err := os.ReadFile(outPath)
	if err != nil {
		return nil, fmt.Errorf("kernel-leg worker %s produced no summary:\n%s", tag, tailBytes(outb, 1500))
	}
	var sum kSummary
	if err := json.Unmarshal(raw, &sum); err != nil {
		return nil, err
	}
	return &sum, nil
}

func runKernelLeg(id string, seed uint64, tier string, budgetSec, workers int) (map[string]interface{}, []kViolation) {
	leg := realLegs[id]
	start := time.Now()
	scratch, bin := buildKernelLeg()
	defer os.RemoveAll(scratch)
	if workers > 8 {
		workers = 8
	}
	count := leg.quick
	if tier == "thorough" {
		count = 1 << 30
	}
	sums := make([]*kSummary, workers)
	errs := make([]error, workers)
	var wg sync.WaitGroup
	for w := 0; w < workers; w++ {
		wg.Add(1)
		go func(w int) {
			defer wg.Done()
			spec := map[string]interface{}{"seed_base": int64(seed % (1 << 40)), "index_from": w, "stride": workers, "count": count / workers, "budget_ms": budgetSec * 1000}
			sums[w], errs[w] = runKernelProc(scratch, bin, leg.test, fmt.Sprintf("w%d", w), spec, time.Duration(budgetSec)*time.Second+90*time.Second)
		}(w)
	}
	wg.Wait()
	total := kSummary{Counters: map[string]int{}}
	for w := range sums {
		if errs[w] != nil {
			fatal2("%v", errs[w])
		}
		s := sums[w]
		total.Runs += s.Runs
		total.Steps += s.Steps
		total.Distinct += s.Distinct
		for k, v := range s.Counters {
			total.Counters[k] += v
		}
		total.Violations = append(total.Violations, s.Violations...)
		if len(total.Samples) < 2 {
			total.Samples = append(total.Samples, s.Samples...)
		}
	}
	if total.Runs == 0 {
		fatal2("kernel leg executed no history")
	}
	extra := map[string]interface{}{
		"kernel_leg": map[string]interface{}{
			"what":                 leg.what,
			"histories":            total.Runs,
			"steps":                total.Steps,
			"distinct_step_shapes": total.Distinct,
			"counters":             total.Counters,
			"violations":           len(total.Violations),
			"samples":              total.Samples,
			"wall_s":               time.Since(start).Seconds(),
		},
	}
	fmt.Printf(id+" real-kernel leg: %d histories, %d steps, %d violating, %.1fs\n", total.Runs, total.Steps, len(total.Violations), time.Since(start).Seconds())
	return extra, total.Violations
}

func replayKernelLeg(id string, h kHistory) ([]Violation, error) {
	scratch, bin := buildKernelLeg()
	defer os.RemoveAll(scratch)
	sum, err := runKernelProc(scratch, bin, realLegs[id].test, "replay", map[string]interface{}{"replay": h}, 180*time.Second)
	if err != nil {
		return nil, err
	}
	var out []Violation
	for _, v := range sum.Violations {
		out = append(out, Violation{v.Clause, v.Key, v.Detail})
	}
	return out, nil
}
