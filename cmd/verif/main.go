// verif is the driver of /verif's deterministic-simulation checks.
//
//	verif check <property> [--tier quick|thorough] [--seed N] [--runs N] [--budget SEC]
//	verif replay <file>
//	verif selftest-determinism [--props C01,C14] [--seeds N]
//
// Every invocation rebuilds an instrumented scratch copy of /repo's current
// working tree (DESIGN.md §2.1), fans seeds out over worker processes, merges
// their summaries, minimises and double-replays every violation, writes the
// evidence file and prints VIOLATION / KNOWN-FINDING lines.
//
// Exit codes: 0 property held on everything explored; 1 at least one unlisted
// violation (each with a replay file that reproduced twice); 2 build trouble,
// harness trouble, determinism mismatch or watchdog — never with a VIOLATION line.
package main

import (
	"bytes"
	"crypto/sha256"
	"encoding/json"
	"flag"
	"fmt"
	"io"
	"os"
	"os/exec"
	"path/filepath"
	"runtime"
	"sort"
	"strconv"
	"strings"
	"sync"
	"time"
)

// verifDir is where the harness sources, overlay, known findings and evidence
// live: /verif, unless VERIF_DIR names a snapshot of it (background sweeps).
var verifDir = "/verif"

// repoDir is the tree the checks are built from: /repo, unless VERIF_REPO
// names a scratch worktree (development aid for running seeded defects in parallel).
var repoDir = "/repo"

// replayDir is where replay files of violations go.
var replayDir = "/verif/replays"

func init() {
	if d := os.Getenv("VERIF_DIR"); d != "" {
		verifDir = d
		replayDir = filepath.Join(d, "replays")
	}
	if d := os.Getenv("VERIF_REPO"); d != "" {
		repoDir = d
	}
	if d := os.Getenv("VERIF_REPLAYS"); d != "" {
		replayDir = d
	}
}

type tierCfg struct {
	runs      int
	budgetSec int
	twice     int
}

type propCfg struct {
	id       string
	race     bool
	kernel   bool // real-kernel leg (no simulator)
	quick    tierCfg
	thorough tierCfg
	rule     string
	level    string
	assume   []string
}

var defaultRule = "cases are generated as a pure function of (VERIF_SEED, run index): scenario (actors, scripts, fault plan, swarm configuration) plus every scheduling / segmentation / latency decision of the simulator kernel; a run is non-trivial if the property's workload made progress (see DESIGN.md per property) and at least one decision differed from the default tape; distinct = distinct interleaving signatures (hash of the sequence of (task role, site) pairs at which the running task changed plus the fault events in order) among non-trivial runs"

var commonAssume = []string{
	"the simulated transport exhibits only behaviour an ordered reliable stream (unix/TCP socket) may exhibit",
	"encoding/json, bufio, context, sync of the Go standard library are trusted and run un-instrumented",
	"testing/synctest of go1.26.8 provides the fake clock and quiescence detection",
	"a clean batch is evidence, not proof: schedules and faults are sampled, not enumerated",
}

var propTable = map[string]*propCfg{}

func addProp(p *propCfg) {
	if p.rule == "" {
		p.rule = defaultRule
	}
	if p.level == "" {
		p.level = "exploration"
	}
	propTable[p.id] = p
}

func init() {
	// quick: as many runs as fit comfortably into the 60 s budget on 16 cores
	// (the budget, not the count, bounds the run on a slower machine)
	addProp(&propCfg{id: "C01", quick: tierCfg{6000, 60, 50}, thorough: tierCfg{400000, 900, 200}})
	addProp(&propCfg{id: "C02", quick: tierCfg{4000, 60, 25}, thorough: tierCfg{300000, 900, 200}})
	addProp(&propCfg{id: "C03", quick: tierCfg{4000, 60, 25}, thorough: tierCfg{300000, 900, 200}})
	addProp(&propCfg{id: "C04", quick: tierCfg{16000, 60, 100}, thorough: tierCfg{800000, 600, 400}})
	addProp(&propCfg{id: "C10", quick: tierCfg{8000, 60, 50}, thorough: tierCfg{400000, 900, 200}})
	addProp(&propCfg{id: "C11", quick: tierCfg{20000, 60, 100}, thorough: tierCfg{1000000, 900, 400}})
	addProp(&propCfg{id: "C12", quick: tierCfg{12000, 60, 50}, thorough: tierCfg{600000, 900, 200}})
	addProp(&propCfg{id: "C13", quick: tierCfg{8000, 60, 50}, thorough: tierCfg{400000, 900, 200}})
	addProp(&propCfg{id: "C14", quick: tierCfg{20000, 60, 100}, thorough: tierCfg{1000000, 900, 400}})
	addProp(&propCfg{id: "C15", quick: tierCfg{6000, 60, 50}, thorough: tierCfg{400000, 900, 200}})
	addProp(&propCfg{id: "C16", race: true, quick: tierCfg{3000, 75, 50}, thorough: tierCfg{100000, 1200, 400}})
	addProp(&propCfg{id: "C17", quick: tierCfg{24000, 60, 100}, thorough: tierCfg{1200000, 900, 400}})
	addProp(&propCfg{id: "C18", quick: tierCfg{24000, 60, 100}, thorough: tierCfg{1200000, 900, 400}})
	addProp(&propCfg{id: "C19", quick: tierCfg{20000, 60, 100}, thorough: tierCfg{1000000, 600, 400}})
}

// ---------------------------------------------------------------------------

type Violation struct {
	Clause string `json:"clause"`
	Key    string `json:"key"`
	Detail string `json:"detail"`
}

type ReplayFile struct {
	Property  string          `json:"property"`
	Seed      uint64          `json:"seed"`
	Scenario  json.RawMessage `json:"scenario"`
	Tape      []uint32        `json:"tape"`
	Violation Violation       `json:"violation"`
	TraceHash string          `json:"trace_hash"`
	Tree      string          `json:"tree,omitempty"`
	Steps     uint64          `json:"steps"`
	Minimised bool            `json:"minimised"`
	Note      string          `json:"note,omitempty"`
	Trace     []string        `json:"trace,omitempty"`
}

type Summary struct {
	Prop        string            `json:"prop"`
	Runs        int               `json:"runs"`
	NonTrivial  int               `json:"nontrivial"`
	Signatures  []string          `json:"signatures"`
	Steps       uint64            `json:"steps"`
	Switches    int               `json:"switches"`
	SimTimeNs   int64             `json:"sim_time_ns"`
	SimTimeS    float64           `json:"sim_time_s"`
	WallUs      int64             `json:"wall_us"`
	Counters    map[string]int    `json:"counters"`
	Sites       []string          `json:"sites"`
	SwitchPairs int               `json:"switch_pairs"`
	Stops       map[string]int    `json:"stops"`
	Violations  []ReplayFile      `json:"violations,omitempty"`
	ViolCount   int               `json:"viol_count"`
	Samples     []json.RawMessage `json:"samples,omitempty"`
	DetChecked  int               `json:"det_checked"`
	DetMismatch []uint64          `json:"det_mismatch,omitempty"`
	HarnessErrs []string          `json:"harness_errs,omitempty"`
	Leaked      int               `json:"leaked"`
	LastIndex   uint64            `json:"last_index"`
	Done        bool              `json:"done"`
	RaceReports []json.RawMessage `json:"race_reports,omitempty"`
}

type Spec struct {
	Mode      string `json:"mode"`
	Prop      string `json:"prop"`
	Tier      string `json:"tier"`
	SeedBase  uint64 `json:"seed_base"`
	IndexFrom uint64 `json:"index_from"`
	Stride    uint64 `json:"stride"`
	Count     uint64 `json:"count"`
	Out       string `json:"out"`
	Replay    string `json:"replay,omitempty"`
	BudgetMs  int    `json:"budget_ms"`
	Twice     int    `json:"twice"`
	KeepTrace bool   `json:"keep_trace"`
	MaxViol   int    `json:"max_viol"`
}

func fatal2(format string, a ...interface{}) {
	fmt.Fprintf(os.Stderr, "verif: "+format+"\n", a...)
	os.Exit(2)
}

func goEnv() []string {
	env := os.Environ()
	env = append(env, "GOFLAGS=-mod=mod", "GOPROXY=off", "GOSUMDB=off", "GOTOOLCHAIN=local", "CGO_ENABLED=1")
	return env
}

func run(dir string, env []string, name string, args ...string) (string, error) {
	cmd := exec.Command(name, args...)
	cmd.Dir = dir
	cmd.Env = env
	var out bytes.Buffer
	cmd.Stdout = &out
	cmd.Stderr = &out
	err := cmd.Run()
	return out.String(), err
}

func copyFile(src, dst string) error {
	b, err := os.ReadFile(src)
	if err != nil {
		return err
	}
	if err := os.MkdirAll(filepath.Dir(dst), 0o755); err != nil {
		return err
	}
	return os.WriteFile(dst, b, 0o644)
}

func copyTree(src, dst string, skip func(rel string, isDir bool) bool) error {
	return filepath.Walk(src, func(p string, info os.FileInfo, err error) error {
		if err != nil {
			return err
		}
		rel, _ := filepath.Rel(src, p)
		if rel != "." && skip != nil && skip(rel, info.IsDir()) {
			if info.IsDir() {
				return filepath.SkipDir
			}
			return nil
		}
		if info.IsDir() {
			return os.MkdirAll(filepath.Join(dst, rel), 0o755)
		}
		if !info.Mode().IsRegular() {
			return nil
		}
		return copyFile(p, filepath.Join(dst, rel))
	})
}

// treeFingerprint hashes the library sources of /repo's working tree.
func treeFingerprint() string {
	h := sha256.New()
	var files []string
	filepath.Walk(filepath.Join(repoDir, "varlink"), func(p string, info os.FileInfo, err error) error {
		if err == nil && info.Mode().IsRegular() && strings.HasSuffix(p, ".go") {
			files = append(files, p)
		}
		return nil
	})
	sort.Strings(files)
	for _, f := range files {
		b, _ := os.ReadFile(f)
		fmt.Fprintf(h, "%s %d\n", f, len(b))
		h.Write(b)
	}
	return fmt.Sprintf("%x", h.Sum(nil))[:16]
}

type build struct {
	scratch string
	bin     string
	info    string
}

// buildHarness prepares the instrumented scratch copy and compiles the worker binary.
func buildHarness(race bool) *build {
	scratch, err := os.MkdirTemp("", "verif-build-")
	if err != nil {
		fatal2("mktemp: %v", err)
	}
	b := &build{scratch: scratch}
	repo := filepath.Join(scratch, "repo")
	must := func(err error) {
		if err != nil {
			os.RemoveAll(scratch)
			fatal2("build: %v", err)
		}
	}
	must(copyFile(filepath.Join(repoDir, "go.mod"), filepath.Join(repo, "go.mod")))
	must(copyFile(filepath.Join(repoDir, "go.sum"), filepath.Join(repo, "go.sum")))
	must(copyTree(filepath.Join(repoDir, "varlink"), filepath.Join(repo, "varlink"), func(rel string, isDir bool) bool {
		return !isDir && strings.HasSuffix(rel, "_test.go")
	}))
	os.Remove(filepath.Join(repo, "varlink", "listen_1.10.go"))
	os.Remove(filepath.Join(repo, "varlink", "listen_1.11.go"))
	must(copyFile(filepath.Join(verifDir, "overlay/simhook/simhook.go"), filepath.Join(repo, "varlink/simhook/simhook.go")))
	ov, _ := filepath.Glob(filepath.Join(verifDir, "overlay/varlink/*.go"))
	for _, f := range ov {
		must(copyFile(f, filepath.Join(repo, "varlink", filepath.Base(f))))
	}
	out, err := run(scratch, goEnv(), filepath.Join(verifDir, "bin/verif-instrument"), repo, filepath.Join(repo, "varlink"), filepath.Join(repo, "varlink/internal/ctxio"))
	if err != nil {
		os.RemoveAll(scratch)
		fatal2("instrumenter failed: %v\n%s", err, out)
	}
	b.info = strings.TrimSpace(out)
	must(copyTree(filepath.Join(verifDir, "harness"), filepath.Join(scratch, "harness"), func(rel string, isDir bool) bool {
		return !isDir && (strings.HasSuffix(rel, ".test") || rel == "go.sum")
	}))
	must(copyFile(filepath.Join(repoDir, "go.sum"), filepath.Join(scratch, "harness/go.sum")))
	b.bin = filepath.Join(scratch, "sim.test")
	args := []string{"test", "-c", "-trimpath", "-o", b.bin}
	if race {
		args = append(args, "-race")
	}
	args = append(args, ".")
	out, err = run(filepath.Join(scratch, "harness"), goEnv(), "go1.26.8", args...)
	if err != nil {
		os.RemoveAll(scratch)
		fatal2("harness build failed (an edit to /repo may have broken a white-box seam):\n%s", out)
	}
	return b
}

func (b *build) cleanup() { os.RemoveAll(b.scratch) }

// worker runs one worker process to completion, restarting it when it recycles itself.
func (b *build) worker(spec Spec, id int, hardDeadline time.Time, extraEnv []string) (*Summary, string, error) {
	total := &Summary{Prop: spec.Prop, Counters: map[string]int{}, Stops: map[string]int{}}
	sigs := map[string]struct{}{}
	sites := map[string]struct{}{}
	var log bytes.Buffer
	idx := spec.IndexFrom
	remaining := spec.Count
	for attempt := 0; remaining > 0 && attempt < 200; attempt++ {
		s := spec
		s.IndexFrom = idx
		s.Count = remaining
		s.Out = filepath.Join(b.scratch, fmt.Sprintf("out-%d-%d.json", id, attempt))
		left := time.Until(hardDeadline)
		if left <= 0 {
			break
		}
		if s.BudgetMs == 0 || time.Duration(s.BudgetMs)*time.Millisecond > left {
			s.BudgetMs = int(left / time.Millisecond)
		}
		specPath := filepath.Join(b.scratch, fmt.Sprintf("spec-%d-%d.json", id, attempt))
		sb, _ := json.Marshal(s)
		os.WriteFile(specPath, sb, 0o644)
		cmd := exec.Command(b.bin, "-test.run", "^TestSim$", "-test.cpu", "1", "-test.timeout", "0")
		cmd.Env = append(append(os.Environ(), "VERIF_SPEC="+specPath), extraEnv...)
		var out bytes.Buffer
		cmd.Stdout = &out
		cmd.Stderr = &out
		done := make(chan error, 1)
		if err := cmd.Start(); err != nil {
			return total, log.String(), err
		}
		go func() { done <- cmd.Wait() }()
		var werr error
		select {
		case werr = <-done:
		case <-time.After(time.Until(hardDeadline) + 5*time.Minute):
			// (a run in progress at the deadline is finished first, and has its own
			// watchdog of 1 to 4 minutes)
			cmd.Process.Kill()
			<-done
			return total, out.String(), fmt.Errorf("worker %d: watchdog: no result %v after the batch deadline", id, 5*time.Minute)
		}
		raw, rerr := os.ReadFile(s.Out)
		os.Remove(s.Out)
		os.Remove(specPath)
		if rerr != nil {
			return total, out.String(), fmt.Errorf("worker %d produced no summary (exit: %v)", id, werr)
		}
		var sum Summary
		if err := json.Unmarshal(raw, &sum); err != nil {
			return total, out.String(), fmt.Errorf("worker %d: bad summary: %v", id, err)
		}
		log.Write(tailBytes(out.Bytes(), 4000))
		mergeInto(total, &sum, sigs, sites)
		if sum.Runs == 0 {
			break
		}
		done2 := uint64(sum.Runs)
		if done2 > remaining {
			done2 = remaining
		}
		remaining -= done2
		idx = sum.LastIndex + spec.Stride
		if sum.Done && werr == nil && sum.Leaked < 50 && len(sum.HarnessErrs) <= 20 {
			// finished its range, or ran out of budget
			if time.Now().After(hardDeadline) || remaining == 0 {
				break
			}
			// budget exhausted inside the worker
			break
		}
		if !sum.Done && werr != nil {
			// crashed in the middle of a run: that is harness trouble
			return total, out.String(), fmt.Errorf("worker %d died at index %d: %v", id, idx, werr)
		}
	}
	total.Signatures = keys(sigs)
	total.Sites = keys(sites)
	return total, log.String(), nil
}

// raceEnv makes the race detector of a worker write its reports to a file
// the worker reads back after every run (no-op for non-race binaries).
func raceEnv(scratch, tag string) []string {
	prefix := filepath.Join(scratch, "race-"+tag)
	return []string{"GORACE=log_path=" + prefix + " halt_on_error=0 history_size=2 suppress_equal_stacks=0 suppress_equal_addresses=0", "VERIF_RACELOG=" + prefix}
}

func tailBytes(b []byte, n int) []byte {
	if len(b) > n {
		return b[len(b)-n:]
	}
	return b
}

func keys(m map[string]struct{}) []string {
	out := make([]string, 0, len(m))
	for k := range m {
		out = append(out, k)
	}
	sort.Strings(out)
	return out
}

func mergeInto(t, s *Summary, sigs, sites map[string]struct{}) {
	t.Runs += s.Runs
	t.NonTrivial += s.NonTrivial
	t.Steps += s.Steps
	t.Switches += s.Switches
	t.SimTimeNs += s.SimTimeNs
	t.SimTimeS += s.SimTimeS
	t.WallUs += s.WallUs
	t.ViolCount += s.ViolCount
	t.DetChecked += s.DetChecked
	t.DetMismatch = append(t.DetMismatch, s.DetMismatch...)
	t.HarnessErrs = append(t.HarnessErrs, s.HarnessErrs...)
	t.Leaked += s.Leaked
	if s.SwitchPairs > t.SwitchPairs {
		t.SwitchPairs = s.SwitchPairs
	}
	for k, v := range s.Counters {
		t.Counters[k] += v
	}
	for k, v := range s.Stops {
		t.Stops[k] += v
	}
	for _, x := range s.Signatures {
		sigs[x] = struct{}{}
	}
	for _, x := range s.Sites {
		sites[x] = struct{}{}
	}
	t.Violations = append(t.Violations, s.Violations...)
	if len(t.Samples) < 3 {
		t.Samples = append(t.Samples, s.Samples...)
	}
	t.RaceReports = append(t.RaceReports, s.RaceReports...)
}

// oneShot runs a single-mode worker (replay / minimize) and returns the output file content.
func (b *build) oneShot(spec Spec, tag string, timeout time.Duration) ([]byte, string, error) {
	spec.Out = filepath.Join(b.scratch, "oneshot-"+tag+".json")
	specPath := filepath.Join(b.scratch, "oneshot-"+tag+"-spec.json")
	sb, _ := json.Marshal(spec)
	os.WriteFile(specPath, sb, 0o644)
	cmd := exec.Command(b.bin, "-test.run", "^TestSim$", "-test.cpu", "1", "-test.timeout", "0")
	cmd.Env = append(append(os.Environ(), "VERIF_SPEC="+specPath), raceEnv(b.scratch, "one-"+tag)...)
	var out bytes.Buffer
	cmd.Stdout = &out
	cmd.Stderr = &out
	if err := cmd.Start(); err != nil {
		return nil, "", err
	}
	done := make(chan error, 1)
	go func() { done <- cmd.Wait() }()
	select {
	case <-done:
	case <-time.After(timeout):
		cmd.Process.Kill()
		<-done
		return nil, out.String(), fmt.Errorf("%s: timed out after %v", tag, timeout)
	}
	raw, err := os.ReadFile(spec.Out)
	if err != nil {
		return nil, out.String(), fmt.Errorf("%s: no output", tag)
	}
	return raw, out.String(), nil
}

// ---------------------------------------------------------------------------
// known findings

type knownFinding struct {
	prop, clause, key, text string
}

func loadKnown() []knownFinding {
	b, err := os.ReadFile(filepath.Join(verifDir, "known_findings.txt"))
	if err != nil {
		return nil
	}
	var out []knownFinding
	for _, ln := range strings.Split(string(b), "\n") {
		ln = strings.TrimSpace(ln)
		if !strings.HasPrefix(ln, "finding:") {
			continue
		}
		// finding: property=C14 clause=<clause> key=<quoted key> :: text
		rest := strings.TrimSpace(strings.TrimPrefix(ln, "finding:"))
		text := ""
		if i := strings.Index(rest, " :: "); i >= 0 {
			text = rest[i+4:]
			rest = rest[:i]
		}
		kf := knownFinding{text: text}
		for _, f := range splitFields(rest) {
			switch {
			case strings.HasPrefix(f, "property="):
				kf.prop = f[len("property="):]
			case strings.HasPrefix(f, "clause="):
				kf.clause = f[len("clause="):]
			case strings.HasPrefix(f, "key="):
				k := f[len("key="):]
				if uq, err := strconv.Unquote(k); err == nil {
					k = uq
				}
				kf.key = k
			}
		}
		out = append(out, kf)
	}
	return out
}

// splitFields splits on spaces but keeps quoted strings together.
func splitFields(s string) []string {
	var out []string
	var cur strings.Builder
	inq := false
	esc := false
	for _, r := range s {
		switch {
		case esc:
			cur.WriteRune(r)
			esc = false
		case r == '\\' && inq:
			cur.WriteRune(r)
			esc = true
		case r == '"':
			inq = !inq
			cur.WriteRune(r)
		case r == ' ' && !inq:
			if cur.Len() > 0 {
				out = append(out, cur.String())
				cur.Reset()
			}
		default:
			cur.WriteRune(r)
		}
	}
	if cur.Len() > 0 {
		out = append(out, cur.String())
	}
	return out
}

func matchKnown(known []knownFinding, prop string, v Violation) *knownFinding {
	for i := range known {
		k := &known[i]
		if k.prop == prop && k.clause == v.Clause && k.key == v.Key {
			return k
		}
	}
	return nil
}

// ---------------------------------------------------------------------------

func cmdCheck(args []string) int {
	fs := flag.NewFlagSet("check", flag.ExitOnError)
	tier := fs.String("tier", "", "quick|thorough")
	seedFlag := fs.Int64("seed", -1, "base seed (default VERIF_SEED or 1)")
	runsFlag := fs.Int("runs", 0, "override number of runs")
	budgetFlag := fs.Int("budget", 0, "override wall budget in seconds")
	workersFlag := fs.Int("workers", 0, "worker processes (default: all cores)")
	noEvidence := fs.Bool("no-evidence", false, "do not write the evidence file")
	if len(args) < 1 {
		fatal2("usage: verif check <property> [flags]")
	}
	id := args[0]
	fs.Parse(args[1:])
	pc := propTable[id]
	if pc == nil {
		fatal2("unknown property %q", id)
	}
	if *tier == "" {
		*tier = os.Getenv("VERIF_TIER")
	}
	if *tier == "" {
		*tier = "quick"
	}
	if *tier != "quick" && *tier != "thorough" {
		fatal2("bad tier %q", *tier)
	}
	seed := uint64(1)
	if s := os.Getenv("VERIF_SEED"); s != "" {
		if v, err := strconv.ParseUint(s, 10, 64); err == nil {
			seed = v
		} else if v, err := strconv.ParseInt(s, 10, 64); err == nil {
			seed = uint64(v)
		}
	}
	if *seedFlag >= 0 {
		seed = uint64(*seedFlag)
	}
	fmt.Printf("VERIF_SEED=%d property=%s tier=%s\n", seed, id, *tier)
	tc := pc.quick
	if *tier == "thorough" {
		tc = pc.thorough
	}
	if *runsFlag > 0 {
		tc.runs = *runsFlag
	}
	if *budgetFlag > 0 {
		tc.budgetSec = *budgetFlag
	}
	start := time.Now()
	b := buildHarness(pc.race)
	defer b.cleanup()
	buildS := time.Since(start).Seconds()
	tree := treeFingerprint()
	W := runtime.NumCPU()
	if *workersFlag > 0 {
		W = *workersFlag
	}
	if W > tc.runs {
		W = tc.runs
	}
	hard := time.Now().Add(time.Duration(tc.budgetSec) * time.Second)
	type wres struct {
		sum *Summary
		log string
		err error
	}
	results := make([]wres, W)
	var wg sync.WaitGroup
	for w := 0; w < W; w++ {
		wg.Add(1)
		go func(w int) {
			defer wg.Done()
			cnt := uint64(tc.runs / W)
			if w < tc.runs%W {
				cnt++
			}
			spec := Spec{Mode: "batch", Prop: id, Tier: *tier, SeedBase: seed, IndexFrom: uint64(w), Stride: uint64(W), Count: cnt,
				BudgetMs: tc.budgetSec * 1000, Twice: tc.twice, MaxViol: 4}
			var extra []string
			if pc.race {
				extra = raceEnv(b.scratch, fmt.Sprintf("w%d", w))
			}
			s, lg, err := b.worker(spec, w, hard, extra)
			results[w] = wres{s, lg, err}
		}(w)
	}
	wg.Wait()
	total := &Summary{Prop: id, Counters: map[string]int{}, Stops: map[string]int{}}
	sigs := map[string]struct{}{}
	sites := map[string]struct{}{}
	for w, r := range results {
		if r.err != nil {
			fmt.Fprintf(os.Stderr, "%s\n", r.log)
			fatal2("worker %d: %v", w, r.err)
		}
		mergeInto(total, r.sum, sigs, sites)
	}
	total.Signatures = keys(sigs)
	total.Sites = keys(sites)
	if len(total.HarnessErrs) > 0 {
		for _, e := range total.HarnessErrs[:min(3, len(total.HarnessErrs))] {
			fmt.Fprintln(os.Stderr, e)
		}
		fatal2("%d harness errors", len(total.HarnessErrs))
	}
	// A determinism mismatch (a run repeated in the same process gave another
	// trace) usually means harness trouble, but it is also what hidden global
	// state in the library looks like (a package-level cache or map that survives
	// from one run to the next). It is fatal (exit 2) unless a violation is found
	// that reproduces twice in fresh processes from its replay file.
	detMismatch := len(total.DetMismatch) > 0
	if total.Runs == 0 {
		fatal2("no runs executed")
	}
	// the real-kernel leg of C19 runs before anything is reported: trouble there is exit 2
	var kernelExtra map[string]interface{}
	var kviol []kViolation
	var kernelUnreproduced []string
	if _, has := realLegs[id]; has {
		kb := tc.budgetSec / 3
		if kb < 15 {
			kb = 15
		}
		kernelExtra, kviol = runKernelLeg(id, seed, *tier, kb, W)
	}
	// ---- violations: dedupe by class, minimise, double replay
	known := loadKnown()
	exit := 0
	type class struct{ clause, key string }
	seen := map[class]bool{}
	tried := map[class]int{}
	unreproduced := map[class]string{}
	var reported []map[string]interface{}
	knownHit := map[string]bool{}
	sort.Slice(total.Violations, func(i, j int) bool { return total.Violations[i].Steps < total.Violations[j].Steps })
	os.MkdirAll(replayDir, 0o755)
	for _, v := range total.Violations {
		c := class{v.Violation.Clause, v.Violation.Key}
		if seen[c] || len(seen) >= 6 {
			continue
		}
		if tried[c] >= 4 {
			continue
		}
		tried[c]++
		seen[c] = true
		v.Tree = tree
		raw, _ := json.Marshal(v)
		orig := filepath.Join(b.scratch, fmt.Sprintf("viol-%d.json", len(seen)))
		os.WriteFile(orig, raw, 0o644)
		minBudget := 20000
		if *tier == "thorough" {
			minBudget = 60000
		}
		final := raw
		if mraw, _, err := b.oneShot(Spec{Mode: "minimize", Replay: orig, BudgetMs: minBudget}, fmt.Sprintf("min%d", len(seen)), time.Duration(minBudget)*time.Millisecond+60*time.Second); err == nil {
			final = mraw
		}
		var rf ReplayFile
		json.Unmarshal(final, &rf)
		rf.Tree = tree
		final, _ = json.MarshalIndent(rf, "", " ")
		name := fmt.Sprintf("%s-%s-%d.json", id, sanitize(rf.Violation.Clause+"-"+rf.Violation.Key), rf.Seed)
		path := filepath.Join(replayDir, name)
		os.WriteFile(path, final, 0o644)
		// Every replay must re-execute the identical schedule (same trace hash). A
		// functional violation must also recur every time. A race report additionally
		// depends on happens-before edges through standard-library pools (fmt,
		// encoding/json) that no seam controls: it counts as reproduced when 2 of up
		// to 6 identical-schedule replays report it.
		ok, attempts, hashBad := 0, 2, 0
		if pc.race && v.Violation.Clause == "data-race" {
			attempts = 6
		}
		for i := 0; i < attempts && ok < 2; i++ {
			rraw, _, err := b.oneShot(Spec{Mode: "replay", Replay: path}, fmt.Sprintf("rep%d-%d", len(seen), i), 120*time.Second)
			if err != nil {
				continue
			}
			var ro struct {
				Reproduced bool `json:"reproduced"`
				SameHash   bool `json:"same_hash"`
			}
			json.Unmarshal(rraw, &ro)
			if !ro.SameHash {
				hashBad++
			}
			if ro.Reproduced && ro.SameHash {
				ok++
			}
		}
		if hashBad > 0 {
			ok = 0
		}
		if ok < 2 && pc.race && v.Violation.Clause == "data-race" && hashBad == 0 && !bytes.Equal(final, raw) {
			// The minimiser accepts a smaller scenario as soon as one execution of it
			// shows the class; for a race report that can be a lucky one. Fall back to
			// the run as it was found.
			var rf0 ReplayFile
			json.Unmarshal(raw, &rf0)
			rf0.Tree = tree
			final0, _ := json.MarshalIndent(rf0, "", " ")
			os.WriteFile(path, final0, 0o644)
			ok = 0
			for i := 0; i < attempts && ok < 2; i++ {
				rraw, _, err := b.oneShot(Spec{Mode: "replay", Replay: path}, fmt.Sprintf("rep%d-o%d", len(seen), i), 120*time.Second)
				if err != nil {
					continue
				}
				var ro struct {
					Reproduced bool `json:"reproduced"`
					SameHash   bool `json:"same_hash"`
				}
				json.Unmarshal(rraw, &ro)
				if ro.Reproduced && ro.SameHash {
					ok++
				}
			}
			if ok >= 2 {
				rf = rf0
			}
		}
		if ok < 2 && (pc.race && v.Violation.Clause == "data-race" && hashBad == 0 || detMismatch) {
			// The schedule replayed identically but the detector stayed silent (its
			// verdict is not a pure function of the schedule, see above) — or runs in
			// this batch depended on state left behind by earlier runs of the same
			// process (determinism mismatch): try another run that showed the same
			// class before giving up on it.
			os.Remove(path)
			delete(seen, c)
			unreproduced[c] = fmt.Sprintf("violation %s/%s (seed %d) did not reproduce in %d identical-schedule replays", rf.Violation.Clause, rf.Violation.Key, rf.Seed, attempts)
			continue
		}
		delete(unreproduced, c)
		if ok < 2 {
			os.Rename(path, filepath.Join(os.TempDir(), "verif-unreproduced-"+name))
			fmt.Fprintf(os.Stderr, "%s\n", abbreviate(rf.Violation.Detail, 3000))
			fatal2("violation %s/%s (seed %d) did not reproduce twice from its replay file (%d/2): harness determinism problem, nothing reported", rf.Violation.Clause, rf.Violation.Key, rf.Seed, ok)
		}
		if kf := matchKnown(known, id, rf.Violation); kf != nil {
			if !knownHit[kf.clause+"|"+kf.key] {
				fmt.Printf("KNOWN-FINDING: property=%s %s [%s/%s] replay=%s\n", id, kf.text, kf.clause, kf.key, path)
				knownHit[kf.clause+"|"+kf.key] = true
			}
			reported = append(reported, map[string]interface{}{"known": true, "clause": rf.Violation.Clause, "key": rf.Violation.Key, "replay": path})
			continue
		}
		fmt.Printf("VIOLATION property=%s replay=%s\n", id, path)
		fmt.Printf("  clause=%s key=%s\n  %s\n  %s\n", rf.Violation.Clause, rf.Violation.Key, abbreviate(rf.Violation.Detail, 600), rf.Note)
		reported = append(reported, map[string]interface{}{"known": false, "clause": rf.Violation.Clause, "key": rf.Violation.Key, "replay": path, "detail": abbreviate(rf.Violation.Detail, 400)})
		exit = 1
	}
	if _, has := realLegs[id]; has {
		ktried := map[class]int{}
		kfailed := map[class]string{}
		for _, kv := range kviol {
			c := class{"kernel:" + kv.Clause, kv.Key}
			if seen[c] || ktried[c] >= 4 {
				continue
			}
			ktried[c]++
			name := fmt.Sprintf("%s-kernel-%s-%d.json", id, sanitize(kv.Clause+"-"+kv.Key), kv.History.Seed)
			path := filepath.Join(replayDir, name)
			rfb, _ := json.MarshalIndent(map[string]interface{}{"property": id, "kernel": true, "history": kv.History, "violation": Violation{kv.Clause, kv.Key, kv.Detail}, "tree": tree}, "", " ")
			os.WriteFile(path, rfb, 0o644)
			// a kernel-leg violation is reported only if re-executing its history shows it
			// again, twice. The leg is not simulated: an outcome that depends on a real
			// race need not recur at once, so a history is re-executed up to six times
			// and up to four histories of a class are tried.
			okN, execs := 0, 0
			for execs < 6 && okN < 2 && !(execs >= 3 && okN == 0) {
				execs++
				if vs, err := replayKernelLeg(id, kv.History); err == nil {
					for _, v2 := range vs {
						if v2.Clause == kv.Clause && v2.Key == kv.Key {
							okN++
							break
						}
					}
				}
			}
			if okN < 2 {
				os.Remove(path)
				kfailed[c] = fmt.Sprintf("%s/%s (seed %d, %d/%d)", kv.Clause, kv.Key, kv.History.Seed, okN, execs)
				continue
			}
			seen[c] = true
			delete(kfailed, c)
			v := Violation{"kernel:" + kv.Clause, kv.Key, kv.Detail}
			if kf := matchKnown(known, id, v); kf != nil {
				fmt.Printf("KNOWN-FINDING: property=%s %s [%s/%s] replay=%s\n", id, kf.text, kf.clause, kf.key, path)
				reported = append(reported, map[string]interface{}{"known": true, "clause": v.Clause, "key": v.Key, "replay": path})
				continue
			}
			fmt.Printf("VIOLATION property=%s replay=%s\n", id, path)
			fmt.Printf("  clause=%s key=%s\n  %s\n", v.Clause, v.Key, abbreviate(v.Detail, 600))
			reported = append(reported, map[string]interface{}{"known": false, "clause": v.Clause, "key": v.Key, "replay": path, "detail": abbreviate(v.Detail, 400)})
			exit = 1
		}
		var kf []string
		for _, msg := range kfailed {
			kf = append(kf, msg)
		}
		sort.Strings(kf)
		kernelUnreproduced = append(kernelUnreproduced, kf...)
	}
	if detMismatch && exit == 0 {
		fatal2("determinism self-check failed for run indices %v", total.DetMismatch)
	}
	if detMismatch {
		fmt.Printf("note: %d repeated runs gave a different trace in the same process (state surviving between runs?); the violations above reproduced in fresh processes\n", len(total.DetMismatch))
	}
	if exit == 0 && len(kernelUnreproduced) > 0 {
		fatal2("kernel-leg violations did not recur when their histories were re-executed and nothing else was found: %v", kernelUnreproduced)
	}
	for c, msg := range unreproduced {
		if !seen[c] && exit == 0 {
			// a race was reported by the detector but no run reproduces it: harness trouble, nothing is claimed
			fatal2("%s; no other run of this class reproduced either: nothing reported", msg)
		}
	}
	wall := time.Since(start).Seconds()
	if !*noEvidence {
		writeEvidence(pc, *tier, seed, total, reported, wall, buildS, b.info, tree, W, kernelExtra)
	}
	fmt.Printf("%s %s: %d runs (%d non-trivial, %d distinct interleavings), %d steps, sim time %s, %d violating runs, %.1fs wall (build %.1fs)\n",
		id, *tier, total.Runs, total.NonTrivial, len(total.Signatures), total.Steps, simTime(total.SimTimeS), total.ViolCount, wall, buildS)
	return exit
}

// simTime prints simulated seconds (hours beyond an hour; no int64 nanoseconds: thorough tiers exceed 292 years).
func simTime(s float64) string {
	if s >= 3600 {
		return fmt.Sprintf("%.1fh", s/3600)
	}
	return time.Duration(s * 1e9).String()
}

func min(a, b int) int {
	if a < b {
		return a
	}
	return b
}

func sanitize(s string) string {
	var sb strings.Builder
	for _, r := range s {
		switch {
		case r >= 'a' && r <= 'z', r >= 'A' && r <= 'Z', r >= '0' && r <= '9', r == '-', r == '_':
			sb.WriteRune(r)
		default:
			sb.WriteByte('_')
		}
	}
	out := sb.String()
	if len(out) > 60 {
		out = out[:60]
	}
	return out
}

func abbreviate(s string, n int) string {
	if len(s) <= n {
		return s
	}
	return s[:n] + "..."
}

var realVsStub = map[string]string{
	"varlink/service.go, call.go, orgvarlinkservice.go, connection.go (except NewConnection's dial), resolver.go (except NewResolver's dial), internal/ctxio/conn.go, bridge.go": "real code, instrumented scratch copy of the working tree",
	"varlink/listen_1.1x.go":                  "stub (listen_sim.go -> simulated socket namespace)",
	"varlink/newbridge.go (sh -c subprocess)": "stub: simulated peer task on simulated stdio pipe ends",
	"kernel sockets, pipes, scheduler, clock": "stub: the simulator",
	"encoding/json, bufio, context, sync":     "real (standard library, un-instrumented)",
}

func writeEvidence(pc *propCfg, tier string, seed uint64, t *Summary, reported []map[string]interface{}, wall, buildS float64, instr, tree string, workers int, extra map[string]interface{}) {
	faults := map[string]int{}
	probes := map[string]int{}
	other := map[string]int{}
	for k, v := range t.Counters {
		switch {
		case strings.HasPrefix(k, "fault."):
			faults[strings.TrimPrefix(k, "fault.")] = v
		case strings.HasPrefix(k, "probe."):
			probes[strings.TrimPrefix(k, "probe.")] = v
		default:
			other[k] = v
		}
	}
	runS := wall - buildS
	if runS <= 0 {
		runS = 0.001
	}
	var samples []interface{}
	for _, s := range t.Samples {
		var v interface{}
		json.Unmarshal(s, &v)
		samples = append(samples, v)
	}
	if len(samples) == 0 {
		samples = append(samples, "no non-trivial run in this batch")
	}
	var instrInfo interface{}
	json.Unmarshal([]byte(instr), &instrInfo)
	ev := map[string]interface{}{
		"property_id": pc.id,
		"tier":        tier,
		"seed":        seed,
		"level":       pc.level,
		"wall_s":      wall,
		"violations":  len(reported),
		"assumptions": append(append([]string{}, commonAssume...), pc.assume...),
		"coverage": map[string]interface{}{
			"evaluations":                    t.Runs,
			"distinct_nontrivial":            len(t.Signatures),
			"rule":                           pc.rule,
			"samples":                        samples,
			"nontrivial_runs":                t.NonTrivial,
			"runs_per_hour":                  float64(t.Runs) / runS * 3600,
			"seeds_per_hour":                 float64(t.Runs) / runS * 3600,
			"simulated_time_s":               t.SimTimeS,
			"kernel_steps":                   t.Steps,
			"context_switches":               t.Switches,
			"distinct_switch_pairs_max_proc": t.SwitchPairs,
			"distinct_yield_sites_reached":   len(t.Sites),
			"faults_fired":                   faults,
			"probes":                         probes,
			"transport_counters":             other,
			"stop_reasons":                   t.Stops,
			"violating_runs":                 t.ViolCount,
			"reported":                       reported,
			"determinism_reruns":             t.DetChecked,
			"determinism_mismatches":         len(t.DetMismatch),
			"abandoned_bubbles":              t.Leaked,
			"workers":                        workers,
			"build_s":                        buildS,
			"instrumentation":                instrInfo,
			"tree_fingerprint":               tree,
			"real_vs_stub":                   realVsStub,
		},
	}
	for k, v := range extra {
		ev["coverage"].(map[string]interface{})[k] = v
	}
	b, _ := json.MarshalIndent(ev, "", " ")
	os.MkdirAll(filepath.Join(verifDir, "evidence"), 0o755)
	os.WriteFile(filepath.Join(verifDir, "evidence", pc.id+".json"), b, 0o644)
}

func cmdReplay(args []string) int {
	if len(args) < 1 {
		fatal2("usage: verif replay <file>")
	}
	path, _ := filepath.Abs(args[0])
	full := len(args) > 1 && args[1] == "--full"
	raw, err := os.ReadFile(path)
	if err != nil {
		fatal2("%v", err)
	}
	var kr struct {
		Property  string    `json:"property"`
		Kernel    bool      `json:"kernel"`
		History   kHistory  `json:"history"`
		Violation Violation `json:"violation"`
	}
	if json.Unmarshal(raw, &kr) == nil && kr.Kernel {
		// not simulated: an outcome that depends on a real race may need several executions
		for attempt := 1; attempt <= 6; attempt++ {
			vs, err := replayKernelLeg(kr.Property, kr.History)
			if err != nil {
				fatal2("%v", err)
			}
			for _, v := range vs {
				fmt.Printf("  violation clause=%s key=%s: %s\n", v.Clause, v.Key, abbreviate(v.Detail, 800))
				if v.Clause == kr.Violation.Clause && v.Key == kr.Violation.Key {
					fmt.Printf("VIOLATION property=%s replay=%s\n", kr.Property, path)
					return 1
				}
			}
			fmt.Printf("execution %d of the history: the recorded violation did not occur\n", attempt)
		}
		return 0
	}
	var rf ReplayFile
	if err := json.Unmarshal(raw, &rf); err != nil {
		fatal2("bad replay file: %v", err)
	}
	pc := propTable[rf.Property]
	if pc == nil {
		fatal2("unknown property %q", rf.Property)
	}
	b := buildHarness(pc.race)
	defer b.cleanup()
	out, log, err := b.oneShot(Spec{Mode: "replay", Replay: path, KeepTrace: true}, "replay", 300*time.Second)
	if err != nil {
		fmt.Fprintln(os.Stderr, log)
		fatal2("%v", err)
	}
	var ro struct {
		Reproduced bool        `json:"reproduced"`
		SameHash   bool        `json:"same_hash"`
		TraceHash  string      `json:"trace_hash"`
		Violations []Violation `json:"violations"`
		Trace      []string    `json:"trace"`
		HarnessErr string      `json:"harness_err"`
	}
	json.Unmarshal(out, &ro)
	if ro.HarnessErr != "" {
		fatal2("harness error: %s", ro.HarnessErr)
	}
	if tree := treeFingerprint(); rf.Tree != "" && tree != rf.Tree {
		fmt.Printf("note: replay file was recorded on tree %s, current tree is %s\n", rf.Tree, tree)
	}
	n := len(ro.Trace)
	from := max(0, n-60)
	if full {
		from = 0
	}
	for _, ln := range ro.Trace[from:] {
		fmt.Println(ln)
	}
	fmt.Printf("trace hash %s (recorded %s) same=%v\n", ro.TraceHash, rf.TraceHash, ro.SameHash)
	for _, v := range ro.Violations {
		fmt.Printf("  violation clause=%s key=%s: %s\n", v.Clause, v.Key, abbreviate(v.Detail, 800))
	}
	if ro.Reproduced {
		fmt.Printf("VIOLATION property=%s replay=%s\n", rf.Property, path)
		return 1
	}
	fmt.Println("recorded violation did not occur")
	return 0
}

func max(a, b int) int {
	if a > b {
		return a
	}
	return b
}

func main() {
	if len(os.Args) < 2 {
		fatal2("usage: verif check|replay|selftest-determinism ...")
	}
	switch os.Args[1] {
	case "check":
		os.Exit(cmdCheck(os.Args[2:]))
	case "replay":
		os.Exit(cmdReplay(os.Args[2:]))
	case "selftest-determinism":
		os.Exit(cmdSelftest(os.Args[2:]))
	default:
		fatal2("unknown command %q", os.Args[1])
	}
}

// cmdSelftest proves determinism: the same run indices are executed in many
// fresh processes at GOMAXPROCS 1, 4 and 16 and the trace hashes are diffed.
func cmdSelftest(args []string) int {
	fs := flag.NewFlagSet("selftest-determinism", flag.ExitOnError)
	propsFlag := fs.String("props", "", "comma separated property ids (default: all simulated ones)")
	nFlag := fs.Int("seeds", 300, "run indices per property")
	procsFlag := fs.Int("procs", 10, "processes per GOMAXPROCS value")
	seedFlag := fs.Uint64("seed", 1, "base seed")
	raceFlag := fs.Bool("race", false, "use the -race build")
	fs.Parse(args)
	var ids []string
	if *propsFlag != "" {
		ids = strings.Split(*propsFlag, ",")
	} else {
		for id, pc := range propTable {
			if !pc.kernel && pc.race == *raceFlag {
				ids = append(ids, id)
			}
		}
		sort.Strings(ids)
	}
	b := buildHarness(*raceFlag)
	defer b.cleanup()
	bad := 0
	for _, id := range ids {
		type job struct {
			cpu  int
			proc int
		}
		var jobs []job
		for _, cpu := range []int{1, 4, 16} {
			for p := 0; p < *procsFlag; p++ {
				jobs = append(jobs, job{cpu, p})
			}
		}
		outs := make([]map[string]string, len(jobs))
		errs := make([]error, len(jobs))
		sem := make(chan struct{}, runtime.NumCPU())
		var wg sync.WaitGroup
		for ji, j := range jobs {
			wg.Add(1)
			go func(ji int, j job) {
				defer wg.Done()
				sem <- struct{}{}
				defer func() { <-sem }()
				tag := fmt.Sprintf("det-%s-%d-%d", id, j.cpu, j.proc)
				spec := Spec{Mode: "hashes", Prop: id, Tier: "quick", SeedBase: *seedFlag, IndexFrom: 0, Stride: 1, Count: uint64(*nFlag)}
				spec.Out = filepath.Join(b.scratch, tag+".json")
				specPath := filepath.Join(b.scratch, tag+"-spec.json")
				sb, _ := json.Marshal(spec)
				os.WriteFile(specPath, sb, 0o644)
				cmd := exec.Command(b.bin, "-test.run", "^TestSim$", "-test.cpu", strconv.Itoa(j.cpu), "-test.timeout", "0")
				cmd.Env = append(os.Environ(), "VERIF_SPEC="+specPath)
				out, err := cmd.CombinedOutput()
				if err != nil {
					errs[ji] = fmt.Errorf("%v: %s", err, tailBytes(out, 2000))
					return
				}
				raw, err := os.ReadFile(spec.Out)
				if err != nil {
					errs[ji] = err
					return
				}
				m := map[string]string{}
				json.Unmarshal(raw, &m)
				outs[ji] = m
			}(ji, j)
		}
		wg.Wait()
		mism := 0
		for ji := range jobs {
			if errs[ji] != nil {
				fmt.Printf("%s: process %v failed: %v\n", id, jobs[ji], errs[ji])
				bad++
				continue
			}
			for k, v := range outs[0] {
				if outs[ji][k] != v {
					if mism < 10 {
						fmt.Printf("%s: index %s differs: %q (cpu=%d proc=%d) vs %q (cpu=%d proc=%d)\n", id, k, v, jobs[0].cpu, jobs[0].proc, outs[ji][k], jobs[ji].cpu, jobs[ji].proc)
					}
					mism++
				}
			}
		}
		fmt.Printf("%s: %d indices x %d processes (GOMAXPROCS 1/4/16): %d mismatches\n", id, *nFlag, len(jobs), mism)
		bad += mism
	}
	if bad > 0 {
		return 2
	}
	return 0
}

var _ = io.Discard
