#!/bin/bash
# Builds /verif's tools from files on disk only (offline) and warms the build cache.
set -e
cd /verif
export GOFLAGS=-mod=mod GOPROXY=off GOSUMDB=off GOTOOLCHAIN=local
mkdir -p bin evidence replays
go1.26.8 build -o bin/ ./cmd/...
# warm the build cache: standard library (plain and -race) and the harness deps
go1.26.8 build std >/dev/null 2>&1 || true
go1.26.8 build -race std >/dev/null 2>&1 || true
echo "verif setup done"
