#!/usr/bin/env python3
"""Regenerates /verif/MANIFEST.json from the table below (development aid)."""
import json

DST = "deterministic simulation with fault injection: "

CHECKS = {
    "C01": dict(
        text="Seeded search over call sequences x handler scripts x segmentations x interleavings of N connections against a sequential reference model of one connection; a clean batch is evidence, not proof. Variants: a handler that blocks until the rest of the world is quiet (independence of connections), a service with an idle timeout whose accept deadline expires several times while an anchor connection is open and other clients connect in between.",
        technique=DST + "seeded scheduler + simulated stream transport, per-connection sequential reference model",
        ref="DESIGN.md §4 C01"),
    "C04": dict(
        text="Seeded generation of method strings x registered-name sets on live multi-call connections; routing function written from the statement, exactly-once dispatch log, one reply per call. The schedule dimension adds little here; strength comes from the independent model with the real service in the loop. One run in twelve is a registration history (C13's linearizability oracle) whose clients make calls while the set of registered names changes between serving rounds: routing follows the registrations.",
        technique=DST + "seeded workload over the simulated transport, routing reference model + dispatch-log oracle",
        ref="DESIGN.md §4 C04"),
    "C10": dict(
        text="Seeded hostile byte streams (mutations, wrong shapes, random bytes) with close/reset at drawn byte offsets and phases, a probe connection, then Shutdown or idle timeout; oracle: model answers for complete well-formed frames, nothing dispatched otherwise, no panic, no task left at quiescence, serving drains; a run that spins without progress up to the step cap is a livelock. One run in sixteen: a hostile peer is still connected when the service is shut down and vanishes afterwards; the next serving round of the same service, with an idle timeout and no visitor, must stop by itself.",
        technique=DST + "peer abort/close at arbitrary byte offsets, back-pressure, quiescence-based liveness oracle",
        ref="DESIGN.md §4 C10"),
    "C14": dict(
        text="Seeded histories over {serve round (Listen | Bind+DoListen), client connect/call/close/abort, handler failure, context cancel, Shutdown, second Bind/Listen, re-serve on the same address}; Shutdown placed by observed accept-loop phase plus statement-level preemption inside Shutdown, the loop and teardown. Oracles: every round ends once Shutdown was issued and clients are gone; nil return when Shutdown found the loop blocked in Accept; nothing dialled after Shutdown returned is accepted by that round; no return before accepted connections ended; listener closed at return; re-bind succeeds; second bind while serving refused. Variants: serving contexts that are cancelled or expire (standard and simulator contexts), Bind given a context of its own, rounds that never get as far as serving (address held by a foreign listener; Bind + Shutdown without a serving call), handlers that call Shutdown themselves; DoListen without a Bind (refused, the next round works); one scenario in eight also meets accept(2) failing with EMFILE / ENFILE / ECONNABORTED at once or after having been blocked (the serving call may hand the error on - drained, endpoint released, service reusable - or go on serving; it must not return nil as if shut down); a run that spins without progress is a livelock.",
        technique=DST + "seeded scheduler preempting between statements of the accept loop / Shutdown / teardown, life-cycle history oracle with bounded liveness at quiescence",
        ref="DESIGN.md §4 C14"),
    "C15": dict(
        text="Same histories with idle timeouts from 1 us to 24 h on the simulated clock (and timeout 0 as control). Oracles are exact because running code takes no simulated time: timeout return not before last-new-connection + timeout, not after last-connection-end + timeout, never while an obliged client still has to be served, always eventually when idle; never a self-stop without timeout; listener closed at the timeout return, later dials refused, re-serve works. One run in 24: the serving context ends under open connections and the idle timeout then stops the service. One scenario in eight: Accept fails with a temporary error that is not a timeout (EMFILE, ENFILE, ECONNABORTED) - never a reason to report an idle timeout that has not elapsed. A second leg, NOT simulated, serves with an idle timeout on the real listener types (unix, abstract unix, tcp): whether the accept deadline works there at all has no seam.",
        technique=DST + "simulated clock with accept-deadline expiries as kernel events, ties decided by the seeded scheduler, exact timing oracle; plus a real-listener leg (not simulated) with ordering-based and very wide wall-clock oracles",
        ref="DESIGN.md §4 C15"),
    "C16": dict(
        text="The life-cycle (C14/C15 histories plus RegisterInterface / GetListener attempts concurrent with serving), protocol (C01/C10) and cancellation workloads run in a -race build. The scheduler's handoffs are hidden from the detector (RaceDisable around park/wake, unobserved accesses to kernel-task shared memory, per-object tokens mirroring fdMutex), so it sees exactly the library's own synchronisation over a serialised, replayable schedule; TSan's duplicate suppression is switched off so every run reports its own races. A report counts if an access stack's first non-stdlib frame is library code; reports between harness frames only exit 2.",
        technique=DST + "Go race detector as the oracle inside the seeded, serialised schedule",
        note="Trusted: Go's race detector (sees only accesses that execute; happens-before through sync.Pool inside fmt/encoding/json can hide a race as in any Go program), the hidden-handoff construction of DESIGN.md §2.7, testing/synctest.",
        ref="DESIGN.md §2.7, §4 C16"),
    "C17": dict(
        text="Generated sequences of ReadBytes / Read / Write on the ReadWriterContext obtained through Connection.Upgrade (simulated stream, and the real PipeCon over simulated stdio pipe ends) or as Call.Conn inside a handler; contexts live / cancelled by a canceller task at a generated instant (before the call, blocked with nothing in flight, mid-frame, tie with completion) / with a deadline on the simulated clock / serving context cancelled; peer writes a known stream in generated pieces; writers block on tiny pipes. Oracles: operation returns at the very simulated instant its context is done, with a context/timeout error or success; no helper task left at quiescence; live-context operations never fail; received bytes = the peer's stream with at most one contiguous gap per cancelled read, never extending past what was written when it returned; wire bytes = written data (prefix for cancelled writes). A second leg, NOT simulated, runs seeded cancellation histories over the four real transports (filesystem / abstract unix, tcp, bridge subprocess): the descriptor-level behaviour of the deadline trick (os/exec pipe ends, socket files) has no seam.",
        technique=DST + "context cancellation/deadline instants as seeded kernel events, exact zero-latency unblocking oracle, stream-continuity oracle; plus a real-transport leg (not simulated) with a released-after-return peer",
        note="Trusted: the simulator's transport model, testing/synctest. The real-transport leg trusts wall-clock bounds that are three orders of magnitude wider than the expected latency (5 s late, 20 s stuck) and re-executes a violating history twice before reporting it.",
        ref="DESIGN.md §4 C17"),
    "C18": dict(
        text="A peer writes NUL-terminated frames followed by raw payload, cut so that payload shares a segment with the preceding frame; the consumer mixes ReadBytes(0) and Read of 1..8192 bytes in generated order, client side through Upgrade's object and service side through Call.Conn. Oracle: concatenation of everything returned = the exact prefix of the stream; a satisfiable read never stays blocked at quiescence; when the peer closed in an orderly way and the consumer read to the end, what was returned (including bytes returned together with EOF) is the whole stream. Upgrade replies with either continues flag, oneway upgrade calls, Upgrade under a context that ends right after it. The end of the stream is reported only when the peer has ended it; a peer that writes everything and closes at once while the consumer writes into the closed connection (the failed write costs nothing that was received); one run in 3000 streams 17-24 MiB behind the upgrade.",
        technique=DST + "adversarial segmentation / coalescing / short reads of the simulated transport, byte-exact stream oracle",
        ref="DESIGN.md §4 C18"),
    "C19": dict(
        text="Simulated leg: histories of Bind / Bind+DoListen / Listen / Shutdown on one service object with address strings from a grammar (tcp and abstract unix forms, missing / empty / foreign protocol, empty unix path, ';parameter' tails, random strings) over the simulated socket namespace; oracle: outcome class per string from the statement (refused / bound to exactly (network, address-before-';')), no panic in any task, a refused or failed bind is followed by a working bind, a probe client reaches the service at the parsed endpoint, listeners closed after Shutdown. Filesystem socket paths and the client dialler cannot be put behind the simulator without replacing the lines under test: a second leg, NOT simulated, runs seeded address histories against the real kernel (filesystem paths with stale sockets / files / directories / missing parents / foreign listeners at the path, abstract names, tcp with IPv4 and IPv6-literal hosts, the real dialler given the same string, a dial under a context that never ends when nobody listens, socket-file life cycle).",
        technique=DST + "seeded address-string histories over the simulated socket namespace, outcome-class model",
        note="Trusted: simulated namespace (EADDRINUSE / ECONNREFUSED / unknown-network behaviour of net.Listen), testing/synctest. Not covered by the simulated leg: os.Remove of stale sockets, SetUnlinkOnClose, the *net.UnixListener assertion and NewConnection's net.Dialer (real-kernel objects without a seam) - those are exercised by the real-kernel leg, which controls no schedule (20 s watchdogs; ordering facts only).",
        ref="DESIGN.md §4 C19"),
    "C02": dict(
        text="Real Connection clients and a real Service exchange generated JSON (strings with NUL, quotes, control and non-BMP characters, nesting to depth 200, frames larger than bufio's buffer and the pipe capacity; up to MiB in the thorough tier) over the simulated stream and over the real PipeCon on simulated stdio pipes, under per-run segmentation / coalescing / short-read / latency / tiny-capacity policies. Oracle: both wire taps cut at NUL are non-empty JSON objects, the stream ends with NUL, message counts equal the model's, and what each side decodes equals what the other sent whatever the segmentation (C01/C10 add raw byte-at-a-time client streams against the same model). Variants: Shutdown in the middle of the traffic, a service with an idle timeout whose accept deadline expires while connections are open, (one run in 1500) a bulk scenario of 20-60 MiB per direction on one connection, and a client that closes its connection twice before the other clients dial (nothing a closed connection gave back is shared by later ones).",
        technique=DST + "wire tap of the simulated transport + adversarial segmentation, framing oracle on both directions",
        ref="DESIGN.md §4 C02"),
    "C03": dict(
        text="Generated JSON objects (integers beyond 2^53, -0, exponents, long fractions, empty objects, null members, unicode keys, deep and large values) as call and reply parameters, more-sequences of 0..20 replies, Send+receive and Call, over the simulated stream (standing for unix / abstract / tcp, which differ only in the kernel object behind net.Conn) and the real PipeCon with an in-simulation bridge relay. Oracle: handler-side raw parameters and client-side received raw parameters are JSON-equal to what was passed, numbers compared as lexemes; continues set on all replies but the last. The schedule dimension adds little; strength is the independent model with both real endpoints in the loop. Variants: Shutdown in the middle of the traffic (also issued by a handler), an idle-timeout service with connections open over many expiries, pipelined calls, a context of its own for Send, `{}` as parameters, lockstep more-sequences (a reply is on the wire when Reply returns). A second leg, NOT simulated, runs round trips over the four real transports.",
        technique=DST + "both real endpoints over the simulated transport, lexeme-exact JSON equality oracle",
        ref="DESIGN.md §4 C03"),
    "C12": dict(
        text="Handler error names from a grammar (dots anywhere, empty parts, unicode, org.varlink.service.X, .X.Y, near misses) with generated parameters, and the four built-in helpers with arbitrary strings, both ends real. Oracle: sendable iff non-empty interface part that is not exactly org.varlink.service; sendable -> client gets *varlink.Error with exactly that name and JSON-equal parameters; otherwise the handler got an error and nothing was written; built-ins arrive as their typed errors carrying the value the service put in. Error values are asked again at the end of the run what they say; typed out-parameters whose members collide with the error's parameters; own errors named like the standard ones.",
        technique=DST + "both real endpoints over the simulated transport, error-namespace reference predicate",
        ref="DESIGN.md §4 C12"),
    "C11": dict(
        text="A real Connection (simulated stream, and PipeCon over simulated stdio pipes) against a scripted raw server that sends a generated reply byte stream - valid single / more-sequence / error frames for the four standard and foreign names with fitting, missing, null and unfitting parameters, bare null, wrong shapes, truncated and random bytes, byte-level mutations, frames beyond bufio's buffer - in arbitrary pieces and dies (close / reset / silence) at a drawn byte offset; client operations Send with all 16 flag sets, receive repeatedly, Call, Upgrade. Oracle: a reference decoder over the bytes actually sent: next complete frame -> (parameters, continues) | remote error of that name | decode error; never success without a complete frame; unexpected-EOF after an orderly close; refused flag sets write nothing, accepted requests carry exactly the requested flags; a Send first attempted under an expired deadline fails and leaves nothing on the wire; no panic.",
        technique=DST + "scripted hostile peer with abort at arbitrary byte offsets, reference decoder oracle over the delivered bytes",
        ref="DESIGN.md §4 C11"),
    "C13": dict(
        text="2-5 concurrent actors take one service through register / duplicate register / serve (Listen | Bind+DoListen) / register while serving / Shutdown / register again while client actors call the GetInfo, GetInterfaceDescription and Resolver helpers; identity strings, names and descriptions arbitrary valid UTF-8. Completed operations are stamped with kernel sequence numbers at invoke and return (serving calls split into Start [invoke, first Accept] and Stop [Shutdown invoke, return]; unfinished ones are pending) and checked with porcupine against a sequential model {identity, names in order, descriptions, serving}: Register -> ok | refused and a refused Register changes nothing; GetInfo / GetInterfaceDescription return the state at their linearisation point. Resolver helper results are compared field for field with what the test resolver interface answered. Clients also make calls (dispatched exactly if the interface is registered at the linearisation point), send garbage, and re-use destination variables; descriptions include the empty text and CRLF.",
        technique=DST + "recorded concurrent history checked for linearizability (porcupine) against a sequential reference model",
        note="Trusted: porcupine v1.3.0, the simulated transport, testing/synctest. Histories are kept below 40 operations so the check never times out (Unknown is never reported).",
        ref="DESIGN.md §4 C13"),
}

NA = {
    "C05": "pure single-goroutine function idl.New(string) -> (tree, error): no schedule, clock, I/O or fault for a simulator to control (DESIGN.md §5)",
    "C06": "pure function of the input text (IDL parser rejection behaviour); deciding it is input generation against a grammar, not simulation (DESIGN.md §5)",
    "C07": "code generator is a pure function from a description to bytes, judged by the Go type checker; nothing to schedule or fail (DESIGN.md §5)",
    "C08": "binding layer of generated stubs has no concurrency, clock or fault dimension; needs generate->compile->load per description (DESIGN.md §5)",
    "C09": "totality of a pure parser over byte strings: input fuzzing, not simulation (DESIGN.md §5)",
    "C20": "pure function of process-global OS state (environment, pid, inherited fd table) with no seam; a finite configuration product to enumerate in subprocesses, not simulation (DESIGN.md §5)",
}

PENDING = {}

def main():
    checks = []
    for pid in sorted(CHECKS):
        c = CHECKS[pid]
        checks.append({
            "property_id": pid,
            "quick_cmd": f"./bin/verif check {pid} --tier quick",
            "thorough_cmd": f"./bin/verif check {pid} --tier thorough",
            "evidence_file": f"/verif/evidence/{pid}.json",
            "replay_cmd_template": "./bin/verif replay {path}",
            "engine": c.get("engine", "dst"),
            "level_claimed": {"category": c.get("category", "exploration"), "text": c["text"], "design_ref": c["ref"]},
            "level_note": c.get("note", "Trusted: the simulator's transport model (ordered reliable stream; only behaviour a real unix/TCP socket may exhibit), Go's encoding/json for the model's JSON handling, testing/synctest of go1.26.8 (fake clock, quiescence detection). Samples schedules and faults; does not enumerate."),
            "technique": c["technique"],
        })
    na = [{"property_id": k, "reason": v} for k, v in sorted({**NA, **PENDING}.items())]
    m = {
        "version": 1,
        "setup_cmd": "./setup.sh",
        "hooks": {
            "guard": "none in /repo: every hook (simhook.Yield/Go/Mutex, listen_sim.go, verif_whitebox.go) is inserted by /verif/bin/verif-instrument into a scratch copy of the working tree at check time",
            "enable": "./bin/verif check <id> copies /repo's working tree to a temp dir, instruments the copy and builds the harness against it with GOTOOLCHAIN=local go1.26.8",
            "baseline_off_cmd": "cd /repo && go test -vet=off -count=1 ./...",
            "source_commits": [],
            "add_only": True,
        },
        "engines": [{
            "name": "dst",
            "path": "/verif/harness",
            "serves_properties": sorted(k for k, c in CHECKS.items() if c.get("engine", "dst") == "dst"),
            "kind_free_text": "deterministic simulation with fault injection: seeded kernel scheduling real library goroutines inside a testing/synctest bubble over a simulated clock, socket namespace and stream transport",
        }],
        "checks": checks,
        "not_applicable": na,
        "notes": "see DESIGN.md; known findings and fixed defects are listed in /verif/known_findings.txt",
    }
    with open("/verif/MANIFEST.json", "w") as f:
        json.dump(m, f, indent=1, ensure_ascii=False)
        f.write("\n")

if __name__ == "__main__":
    import sys
    sys.path.insert(0, "/verif")
    main()
