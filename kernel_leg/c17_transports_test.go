package varlink_test

// C17, real-transport leg (added by /verif to a scratch copy of the working
// tree; not part of varlink/go). The simulation decides C17 for every
// cancellation instant on a simulated stream; what it cannot represent is how
// the deadline trick behaves on the REAL descriptor types: socket files and the
// os/exec pipe ends of a bridge subprocess (a pipe end that was switched to
// blocking mode accepts SetReadDeadline and ignores it). This leg runs seeded
// cancellation histories over filesystem unix, abstract unix, tcp and a bridge
// subprocess (this test binary re-executed through `sh -c` by varlink.NewBridge)
// and checks that the cancelled operation returns, and with which error, re-use
// of the connection, and leftover goroutines. Not simulated: instants are
// wall-clock, so nothing here depends on a tight bound: the peer stays silent
// (and reads nothing) until the test releases it, which it does only after the
// cancelled operation has returned; an operation that needs more than 5 s after
// its context ended is reported as late, one that needs more than 20 s as stuck.

import (
	"context"
	"encoding/json"
	"fmt"
	"io/ioutil"
	"math/rand"
	"os"
	"path/filepath"
	"runtime"
	"strings"
	"testing"
	"time"

	"github.com/varlink/go/varlink"
)

type cStep struct {
	// recv:  oneway call, then receive under a context that ends after AfterMs
	//        (nothing is ever in flight)
	// late:  Hold call whose reply comes only after the cancelled receive has
	//        returned; a live receive must then get it
	// write: the peer is busy (oneway Hold) and a 24 MiB call is written under
	//        a context that ends after AfterMs; ends the history
	// echo:  live round trip
	// servecancel: the serving context is cancelled and Shutdown called while
	//        this connection is open and idle (socket transports; ends the history)
	Kind    string `json:"kind"`
	How     string `json:"how"` // cancel | deadline | both (far deadline, cancelled early)
	AfterMs int    `json:"after_ms"`
}

type cHistory struct {
	Seed      int64   `json:"seed"`
	Transport string  `json:"transport"`
	Steps     []cStep `json:"steps"`
}

type cViolation struct {
	Clause  string   `json:"clause"`
	Key     string   `json:"key"`
	Detail  string   `json:"detail"`
	History cHistory `json:"history"`
}

const cPrompt = 5 * time.Second

func cGen(seed int64) cHistory {
	r := rand.New(rand.NewSource(seed))
	h := cHistory{Seed: seed, Transport: []string{"unix-fs", "unix-abstract", "tcp", "bridge", "bridge", "bridge"}[r.Intn(6)]}
	n := 1 + r.Intn(4)
	for i := 0; i < n; i++ {
		st := cStep{How: []string{"cancel", "deadline", "both"}[r.Intn(3)], AfterMs: []int{0, 0, 1, 5, 20, 60}[r.Intn(6)]}
		switch k := r.Intn(20); {
		case k < 11:
			st.Kind = "recv"
		case k < 13:
			st.Kind = "late"
		case k < 17:
			st.Kind = "echo"
		case k < 19:
			st.Kind = "write"
		default:
			st.Kind = "servecancel"
			if h.Transport == "bridge" {
				st.Kind = "recv"
			}
		}
		h.Steps = append(h.Steps, st)
		if st.Kind == "write" || st.Kind == "servecancel" {
			break
		}
	}
	return h
}

func cCtx(how string, after time.Duration) (context.Context, context.CancelFunc) {
	switch how {
	case "deadline":
		return context.WithTimeout(context.Background(), after)
	case "both":
		ctx, cancel := context.WithTimeout(context.Background(), time.Hour)
		if after == 0 {
			cancel()
		} else {
			time.AfterFunc(after, cancel)
		}
		return ctx, cancel
	}
	ctx, cancel := context.WithCancel(context.Background())
	if after == 0 {
		cancel()
	} else {
		time.AfterFunc(after, cancel)
	}
	return ctx, cancel
}

func cIsCtxErr(err error) bool {
	if err == nil {
		return false
	}
	if err == context.Canceled || err == context.DeadlineExceeded {
		return true
	}
	if te, ok := err.(interface{ Timeout() bool }); ok && te.Timeout() {
		return true
	}
	s := err.Error()
	return strings.Contains(s, "context canceled") || strings.Contains(s, "deadline exceeded") || strings.Contains(s, "i/o timeout")
}

var cCounter int
var cHung bool

func cStacks() string {
	buf := make([]byte, 1<<20)
	buf = buf[:runtime.Stack(buf, true)]
	var keep []string
	for _, g := range strings.Split(string(buf), "\n\n") {
		if strings.Contains(g, "github.com/varlink/go/varlink.") || strings.Contains(g, "github.com/varlink/go/varlink/internal/ctxio.") {
			lines := strings.Split(g, "\n")
			if len(lines) > 9 {
				lines = lines[:9]
			}
			keep = append(keep, strings.Join(lines, " | "))
		}
	}
	if len(keep) > 4 {
		keep = keep[:4]
	}
	return strings.Join(keep, " || ")
}

func cRun(h cHistory, dir string) (viol []cViolation) {
	fail := func(clause, key, format string, a ...interface{}) {
		viol = append(viol, cViolation{clause, key + " " + h.Transport, fmt.Sprintf(format, a...), h})
	}
	live, liveCancel := context.WithTimeout(context.Background(), 60*time.Second)
	defer liveCancel()
	cCounter++
	base := runtime.NumGoroutine()
	var conn *varlink.Connection
	var err error
	done := make(chan error, 1)
	var svc *varlink.Service
	serveCtx, serveCancel := context.WithCancel(context.Background())
	defer serveCancel()
	if h.Transport == "bridge" {
		os.Setenv("VERIF_BRIDGE_CHILD", "1")
		os.Setenv("VERIF_BRIDGE_CALLS", "1000000")
		conn, err = varlink.NewBridgeWithStderr("exec "+os.Args[0]+" -test.run='^TestVerifBridgeChild$'", ioutil.Discard)
		os.Unsetenv("VERIF_BRIDGE_CHILD")
		if err != nil {
			fail("transport", "bridge-start-failed", "%v", err)
			return
		}
	} else {
		addr := ""
		switch h.Transport {
		case "unix-fs":
			addr = "unix:" + filepath.Join(dir, fmt.Sprintf("c%d", cCounter))
		case "unix-abstract":
			addr = fmt.Sprintf("unix:@verif-c17-%d-%d", os.Getpid(), cCounter)
		default:
			addr = fmt.Sprintf("tcp:127.0.0.1:%d", freePort())
		}
		svc = tService()
		if err := svc.Bind(live, addr); err != nil {
			if h.Transport == "tcp" {
				return // the port was taken in the meantime: not a finding
			}
			fail("transport", "bind-failed", "%s: %v", addr, err)
			return
		}
		go func() { done <- svc.DoListen(serveCtx, 0) }()
		conn, err = varlink.NewConnection(live, addr)
		if err != nil {
			fail("transport", "connect-failed", "%s: %v", addr, err)
			svc.Shutdown()
			<-done
			return
		}
	}
	// guarded: an operation that does not come back at all within 20 s is the
	// finding, and this process is finished (its goroutine stays blocked)
	guarded := func(what string, f func()) bool {
		ch := make(chan struct{})
		panicked := ""
		go func() {
			defer func() {
				if r := recover(); r != nil {
					panicked = fmt.Sprint(r)
				}
				close(ch)
			}()
			f()
		}()
		select {
		case <-ch:
			if panicked != "" {
				fail("no-panic", what+"-panicked", "%s panicked: %.300s", what, panicked)
				cHung = true // the connection is in an unknown state: this process is done
				return false
			}
			return true
		case <-time.After(20 * time.Second):
			fail("prompt", what+"-never-returned", "%s has not returned 20 s after its context ended; %s", what, cStacks())
			cHung = true
			return false
		}
	}
	echo := func(i int) bool {
		raw := json.RawMessage(fmt.Sprintf(`{"step":%d,"seed":%d}`, i, h.Seed))
		var out json.RawMessage
		var err error
		if !guarded("live-call", func() { err = conn.Call(live, "org.verif.echo.Echo", &raw, &out) }) {
			return false
		}
		if err != nil {
			fail("reuse", "live-call-failed", "step %d: a call with a live context after the cancelled operation failed: %v", i, err)
			return false
		}
		if tCanon(out) != tCanon(raw) {
			fail("reuse", "live-call-wrong-bytes", "step %d: sent %s, received %.200s", i, raw, out)
			return false
		}
		return true
	}
	ended := false
steps:
	for i, st := range h.Steps {
		after := time.Duration(st.AfterMs) * time.Millisecond
		switch st.Kind {
		case "echo":
			if !echo(i) {
				break steps
			}
		case "recv", "late":
			var recv func(context.Context, interface{}) (uint64, error)
			release := filepath.Join(dir, fmt.Sprintf("release-%d-%d", cCounter, i))
			raw := json.RawMessage(fmt.Sprintf(`{"file":%q,"step":%d}`, release, i))
			if st.Kind == "recv" {
				recv, err = conn.Send(live, "org.verif.echo.Echo", &raw, varlink.Oneway)
			} else {
				recv, err = conn.Send(live, "org.verif.echo.Hold", &raw, 0)
			}
			if err != nil {
				fail("reuse", "live-send-failed", "step %d: %v", i, err)
				break steps
			}
			ctx, cancel := cCtx(st.How, after)
			var out json.RawMessage
			var rerr error
			t0 := time.Now()
			ok := guarded("receive", func() { _, rerr = recv(ctx, &out) })
			took := time.Since(t0)
			cancel()
			if !ok {
				ioutil.WriteFile(release, nil, 0o644)
				break steps
			}
			if rerr == nil {
				fail("prompt", "cancelled-receive-succeeded", "step %d: receive under a context ending after %v returned success (%.100s) although the peer has sent nothing", i, after, out)
				break steps
			}
			if took > after+cPrompt {
				fail("prompt", "receive-late-"+st.How, "step %d: receive under a context (%s) ending after %v returned after %v (%v)", i, st.How, after, took, rerr)
				break steps
			}
			if !cIsCtxErr(rerr) {
				fail("error", "receive-wrong-error-"+st.How, "step %d: %v", i, rerr)
				break steps
			}
			if st.Kind == "late" {
				// everything the peer sends from now on is delivered: the late reply first
				ioutil.WriteFile(release, nil, 0o644)
				var out2 json.RawMessage
				var err2 error
				if !guarded("live-receive", func() { _, err2 = recv(live, &out2) }) {
					break steps
				}
				if err2 != nil {
					fail("reuse", "late-reply-lost", "step %d: live receive after the cancelled one: %v", i, err2)
					break steps
				}
				if tCanon(out2) != tCanon(raw) {
					fail("reuse", "late-reply-wrong-bytes", "step %d: expected %s, received %.200s", i, raw, out2)
					break steps
				}
			}
			if !echo(i) {
				break steps
			}
		case "write":
			release := filepath.Join(dir, fmt.Sprintf("release-%d-%d", cCounter, i))
			raw := json.RawMessage(fmt.Sprintf(`{"file":%q}`, release))
			if _, err := conn.Send(live, "org.verif.echo.Hold", &raw, varlink.Oneway); err != nil {
				fail("reuse", "live-send-failed", "step %d: %v", i, err)
				break steps
			}
			big := json.RawMessage(`{"big":"` + strings.Repeat("x", 24<<20) + `"}`)
			// Send marshals the 24 MiB before it writes: how long that takes on this
			// machine at this moment is measured, not assumed
			m0 := time.Now()
			json.Marshal(&big)
			marshal := time.Since(m0)
			ctx, cancel := cCtx(st.How, after)
			var werr error
			t0 := time.Now()
			ok := guarded("send", func() { _, werr = conn.Send(ctx, "org.verif.echo.Echo", &big, varlink.Oneway) })
			took := time.Since(t0)
			cancel()
			ioutil.WriteFile(release, nil, 0o644)
			if !ok {
				break steps
			}
			// (marshalling 24 MiB takes its own time before the write starts)
			if werr == nil {
				fail("prompt", "cancelled-send-succeeded", "step %d: a 24 MiB send under a context ending after %v succeeded in %v although the peer reads nothing", i, after, took)
			} else if took > after+cPrompt+20*marshal {
				fail("prompt", "send-late-"+st.How, "step %d: send under a context (%s) ending after %v returned after %v (%v)", i, st.How, after, took, werr)
			} else if !cIsCtxErr(werr) {
				fail("error", "send-wrong-error-"+st.How, "step %d: %v", i, werr)
			}
			break steps
		case "servecancel":
			serveCancel()
			svc.Shutdown()
			select {
			case <-done:
			case <-time.After(2 * cPrompt):
				fail("prompt", "serving-read-not-cancelled", "step %d: the serving context was cancelled and Shutdown called with one idle connection open; the serving call has not returned after %v; %s", i, 2*cPrompt, cStacks())
				cHung = true
			}
			ended = true
			break steps
		}
	}
	if cHung {
		return
	}
	closed := make(chan struct{})
	go func() { conn.Close(); close(closed) }()
	select {
	case <-closed:
	case <-time.After(20 * time.Second):
		fail("transport", "close-did-not-return", "Connection.Close has not returned after 20 s")
		cHung = true
		return
	}
	if svc != nil && !ended {
		svc.Shutdown()
		select {
		case <-done:
		case <-time.After(20 * time.Second):
			fail("transport", "serving-call-did-not-return", "after Shutdown")
			cHung = true
			return
		}
	}
	// no goroutine is left behind
	if len(viol) == 0 {
		deadline := time.Now().Add(5 * time.Second)
		for runtime.NumGoroutine() > base && time.Now().Before(deadline) {
			time.Sleep(5 * time.Millisecond)
		}
		if n := runtime.NumGoroutine(); n > base {
			if s := cStacks(); s != "" {
				fail("leak", "goroutine-left", "%d goroutines before the history, %d five seconds after everything was closed: %s", base, n, s)
			}
		}
	}
	return
}

func TestVerifC17Transports(t *testing.T) {
	specPath := os.Getenv("VERIF_KSPEC")
	if specPath == "" || os.Getenv("VERIF_BRIDGE_CHILD") != "" {
		t.Skip("VERIF_KSPEC not set")
	}
	raw, err := ioutil.ReadFile(specPath)
	if err != nil {
		t.Fatal(err)
	}
	var spec struct {
		SeedBase  int64     `json:"seed_base"`
		IndexFrom int64     `json:"index_from"`
		Stride    int64     `json:"stride"`
		Count     int64     `json:"count"`
		BudgetMs  int64     `json:"budget_ms"`
		Out       string    `json:"out"`
		Replay    *cHistory `json:"replay,omitempty"`
	}
	if err := json.Unmarshal(raw, &spec); err != nil {
		t.Fatal(err)
	}
	dir, err := ioutil.TempDir("", "verif-c17-")
	if err != nil {
		t.Fatal(err)
	}
	defer os.RemoveAll(dir)
	var sum struct {
		Runs       int            `json:"runs"`
		Steps      int            `json:"steps"`
		Distinct   int            `json:"distinct"`
		Counters   map[string]int `json:"counters"`
		Violations []cViolation   `json:"violations"`
		Samples    []cHistory     `json:"samples"`
	}
	sum.Counters = map[string]int{}
	distinct := map[string]bool{}
	flush := func() {
		sum.Distinct = len(distinct)
		b, _ := json.Marshal(sum)
		ioutil.WriteFile(spec.Out, b, 0o644)
	}
	one := func(h cHistory) {
		v := cRun(h, dir)
		sum.Runs++
		sum.Steps += len(h.Steps)
		sum.Counters["transport."+h.Transport]++
		shape := h.Transport
		for _, st := range h.Steps {
			sum.Counters["step."+st.Kind]++
			if st.Kind != "echo" && st.Kind != "servecancel" {
				sum.Counters["cancelled."+st.How]++
			}
			shape += fmt.Sprintf("/%s.%s.%d", st.Kind, st.How, st.AfterMs)
		}
		distinct[shape] = true
		if len(sum.Samples) < 2 {
			sum.Samples = append(sum.Samples, h)
		}
		if len(v) > 0 && len(sum.Violations) < 8 {
			sum.Violations = append(sum.Violations, v[0])
		}
	}
	if spec.Replay != nil {
		one(*spec.Replay)
		flush()
		return
	}
	deadline := time.Now().Add(time.Duration(spec.BudgetMs) * time.Millisecond)
	stride := spec.Stride
	if stride == 0 {
		stride = 1
	}
	for i := int64(0); i < spec.Count; i++ {
		if spec.BudgetMs > 0 && time.Now().After(deadline) {
			break
		}
		one(cGen(spec.SeedBase*1000003 + spec.IndexFrom + i*stride))
		if cHung {
			break
		}
		if i%10 == 0 {
			flush()
		}
	}
	flush()
}
