package varlink_test

// C19, real-kernel leg (added by /verif to a scratch copy of the working tree;
// not part of varlink/go). The simulator cannot own the kernel's socket
// namespace without replacing the very lines under test (os.Remove of stale
// sockets, SetUnlinkOnClose, the *net.UnixListener assertion, NewConnection's
// net.Dialer), so this leg runs seeded operation-and-environment-fault
// histories against the real kernel inside a private temporary directory and
// judges them against a small model of the path namespace. One driver
// goroutine; the only concurrency is one serving goroutine per step, joined
// before the next step.

import (
	"context"
	"encoding/json"
	"fmt"
	"io/ioutil"
	"math/rand"
	"net"
	"os"
	"path/filepath"
	"runtime/debug"
	"strings"
	"testing"
	"time"

	"github.com/varlink/go/varlink"
)

type kStep struct {
	Addr string `json:"addr"`
	// Env: what is at the socket path before the step: none | stale | file | dir | fulldir | noparent | foreign
	Env string `json:"env"`
	// Mode: bind | serve | listen | rebind (Bind twice, then DoListen)
	Mode string `json:"mode"`
	// Successor (serve / listen on a filesystem path): as soon as Shutdown has
	// returned - the serving call may still be winding down - another service
	// binds the same address and is served
	Successor bool `json:"successor,omitempty"`
	// EndedFirst: before the step proper, Bind is called with a context that has
	// ended already, followed by Shutdown: error or success, nothing stays behind
	EndedFirst bool `json:"ended_first,omitempty"`
	// BindAgain (serve / listen): while the service is serving, Bind is called
	// again with the same string; if it is refused nothing has changed
	BindAgain bool `json:"bind_again,omitempty"`
}

type kHistory struct {
	Seed  int64   `json:"seed"`
	Steps []kStep `json:"steps"`
}

type kViolation struct {
	Clause  string   `json:"clause"`
	Key     string   `json:"key"`
	Detail  string   `json:"detail"`
	History kHistory `json:"history"`
	Step    int      `json:"step"`
}

type kSpec struct {
	SeedBase  int64     `json:"seed_base"`
	IndexFrom int64     `json:"index_from"`
	Stride    int64     `json:"stride"`
	Count     int64     `json:"count"`
	BudgetMs  int64     `json:"budget_ms"`
	Out       string    `json:"out"`
	Replay    *kHistory `json:"replay,omitempty"`
}

type kSummary struct {
	Runs       int            `json:"runs"`
	Steps      int            `json:"steps"`
	Distinct   int            `json:"distinct"`
	Counters   map[string]int `json:"counters"`
	Violations []kViolation   `json:"violations"`
	Samples    []kHistory     `json:"samples"`
	Hung       bool           `json:"hung"`
}

type kClass struct {
	kind    string // refused | valid | either
	network string
	addr    string
}

func kClassify(a string) kClass {
	i := strings.IndexByte(a, ':')
	if i < 0 {
		return kClass{kind: "refused"}
	}
	proto, rest := a[:i], a[i+1:]
	if j := strings.IndexByte(rest, ';'); j >= 0 {
		rest = rest[:j]
	}
	switch proto {
	case "unix":
		if rest == "" {
			return kClass{kind: "refused"}
		}
		return kClass{kind: "valid", network: "unix", addr: rest}
	case "tcp":
		if rest == "" || !strings.Contains(rest, ":") {
			return kClass{kind: "either", network: "tcp", addr: rest}
		}
		return kClass{kind: "valid", network: "tcp", addr: rest}
	}
	return kClass{kind: "refused"}
}

var kCounter int

// ipv6Loopback: this machine has ::1 (decided once).
var ipv6Loopback = func() bool {
	l, err := net.Listen("tcp", "[::1]:0")
	if err != nil {
		return false
	}
	l.Close()
	return true
}()

func freePort6() int {
	l, err := net.Listen("tcp", "[::1]:0")
	if err != nil {
		return 0
	}
	p := l.Addr().(*net.TCPAddr).Port
	l.Close()
	return p
}

func freePort() int {
	l, err := net.Listen("tcp", "127.0.0.1:0")
	if err != nil {
		return 0
	}
	p := l.Addr().(*net.TCPAddr).Port
	l.Close()
	return p
}

func kGen(seed int64, dir string) kHistory {
	r := rand.New(rand.NewSource(seed))
	h := kHistory{Seed: seed}
	pick := func(ss ...string) string { return ss[r.Intn(len(ss))] }
	n := 1 + r.Intn(5)
	for i := 0; i < n; i++ {
		kCounter++
		tail := ""
		if r.Intn(100) < 35 {
			tail = pick(";", ";mode=0600", ";a=b;c=d", ";;", ";unix:@x")
		}
		var st kStep
		st.Mode = pick("bind", "serve", "serve", "listen", "rebind")
		st.Env = "none"
		switch r.Intn(12) {
		case 0, 1, 2, 3:
			name := fmt.Sprintf("s%d", kCounter)
			if r.Intn(4) == 0 {
				// '@' selects the abstract namespace only as the first byte of the path
				name = pick("user@host", "a@", "x.@.y", "@@") + name
				if name[0] == '@' {
					name = "p" + name
				}
			}
			form := pick("abs", "abs", "rel", "dotrel", "sub", "dotdot")
			switch form {
			case "abs":
				st.Addr = "unix:" + filepath.Join(dir, name)
			case "rel":
				st.Addr = "unix:" + name
			case "dotrel":
				st.Addr = "unix:./" + name
			case "dotdot":
				// ".." after an existing directory, a missing one, and a symbolic link
				// (where it does not lead back to the working directory)
				st.Addr = "unix:" + pick("sub/../", "missing/../", "link/../", "./sub/../") + name
			default:
				st.Addr = "unix:sub/" + name
			}
			st.Addr += tail
			st.Env = pick("none", "none", "stale", "stale", "file", "dir", "fulldir", "noparent", "foreign")
			if form == "sub" && st.Env == "none" {
				st.Env = pick("none", "noparent")
			}
			if form == "dotdot" {
				st.Env = pick("none", "none", "stale")
			}
			if (st.Mode == "serve" || st.Mode == "listen") && (st.Env == "none" || st.Env == "stale") && r.Intn(3) == 0 {
				st.Successor = true
			}
		case 4, 5:
			st.Addr = fmt.Sprintf("unix:@verif-c19-%d-%d%s", os.Getpid(), kCounter, tail)
			st.Env = pick("none", "none", "none", "foreign")
		case 6, 7:
			st.Addr = fmt.Sprintf("tcp:127.0.0.1:%d%s", freePort(), tail)
			if ipv6Loopback && r.Intn(3) == 0 {
				// a host that is an IPv6 literal: what the service can bind a client can dial
				st.Addr = fmt.Sprintf("tcp:[::1]:%d%s", freePort6(), tail)
			}
			st.Env = pick("none", "none", "none", "foreign")
		case 8:
			st.Addr = pick("", "foo", "unix", "tcp", "@abstract", "/run/sock", "unix@x", ";")
		case 9:
			st.Addr = pick("udp", "http", "UNIX", "Tcp", "unixpacket", "unixgram", "tcp4", " unix", "unix ") + ":" + pick("@x", "127.0.0.1:1", "", filepath.Join(dir, "x")) + tail
		case 10:
			st.Addr = pick("unix:", ":"+filepath.Join(dir, "y"), ":@x", "tcp:", "tcp:nohostport") + tail
		default:
			b := make([]byte, r.Intn(10))
			for j := range b {
				b[j] = byte(32 + r.Intn(95))
			}
			st.Addr = string(b)
		}
		if r.Intn(8) == 0 && (st.Env == "none" || st.Env == "stale") {
			st.EndedFirst = true
		}
		if (st.Mode == "serve" || st.Mode == "listen") && r.Intn(5) == 0 {
			st.BindAgain = true
		}
		h.Steps = append(h.Steps, st)
	}
	// whatever happened before, the service can be bound and served again
	kCounter++
	h.Steps = append(h.Steps, kStep{Addr: fmt.Sprintf("unix:@verif-c19-final-%d-%d", os.Getpid(), kCounter), Env: "none", Mode: "serve"})
	return h
}

type kRunner struct {
	dir   string
	svc   *varlink.Service
	viol  []kViolation
	h     kHistory
	count map[string]int
	hung  bool
}

func (k *kRunner) fail(step int, clause, key, format string, a ...interface{}) {
	k.viol = append(k.viol, kViolation{Clause: clause, Key: key, Detail: fmt.Sprintf("step %d %+v: ", step, k.h.Steps[step]) + fmt.Sprintf(format, a...), History: k.h, Step: step})
}

// guarded runs f with a generous real-time limit; a library call that does not
// return is a finding (the property: never left unable to bind again), and
// nothing after it can be trusted, so the history ends there.
func (k *kRunner) guarded(step int, what string, f func() error) (err error, ok bool) {
	done := make(chan error, 1)
	go func() {
		defer func() {
			if r := recover(); r != nil {
				done <- fmt.Errorf("PANIC: %v\n%s", r, debug.Stack())
			}
		}()
		done <- f()
	}()
	select {
	case err = <-done:
		if err != nil && strings.HasPrefix(err.Error(), "PANIC: ") {
			k.fail(step, "no-panic", "panic in "+what, "%v", err)
			return err, false
		}
		return err, true
	case <-time.After(20 * time.Second):
		k.fail(step, "returns", what+" did not return", "%s has not returned after 20 s of real time", what)
		k.hung = true
		return nil, false
	}
}

func pathOf(cl kClass, dir string) string {
	if cl.network != "unix" || strings.HasPrefix(cl.addr, "@") {
		return ""
	}
	if filepath.IsAbs(cl.addr) {
		return cl.addr
	}
	// the kernel resolves ".." after following links: link -> real/inner, so link/.. is real
	if strings.HasPrefix(cl.addr, "link/../") {
		return filepath.Join(dir, "real", strings.TrimPrefix(cl.addr, "link/../"))
	}
	return filepath.Join(dir, cl.addr)
}

func isSocket(p string) bool {
	fi, err := os.Lstat(p)
	return err == nil && fi.Mode()&os.ModeSocket != 0
}

func exists(p string) bool {
	_, err := os.Lstat(p)
	return err == nil
}

func (k *kRunner) step(i int, st kStep) bool {
	cl := kClassify(st.Addr)
	p := pathOf(cl, k.dir)
	var foreign net.Listener
	defer func() {
		if foreign != nil {
			foreign.Close()
		}
	}()
	k.count["env."+st.Env]++
	k.count["class."+cl.kind]++
	k.count["mode."+st.Mode]++
	// ---- the environment fault
	must := "" // "ok": the bind has to succeed; "": nothing demanded beyond error-or-success
	if cl.kind == "valid" {
		must = "ok"
	}
	if p != "" {
		os.MkdirAll(filepath.Dir(p), 0o755)
		if strings.Contains(cl.addr, "/../") {
			os.MkdirAll(filepath.Join(k.dir, "sub"), 0o755)
			os.MkdirAll(filepath.Join(k.dir, "real", "inner"), 0o755)
			os.Symlink(filepath.Join("real", "inner"), filepath.Join(k.dir, "link"))
			if strings.Contains(cl.addr, "missing/../") {
				must = "" // the kernel refuses the path: no such directory
			}
		}
		switch st.Env {
		case "stale":
			// a crashed service left its socket behind
			ul, err := net.Listen("unix", p)
			if err == nil {
				ul.(*net.UnixListener).SetUnlinkOnClose(false)
				ul.Close()
			}
		case "file":
			ioutil.WriteFile(p, []byte("x"), 0o644)
			must = ""
		case "dir":
			os.Mkdir(p, 0o755)
			must = ""
		case "fulldir":
			os.Mkdir(p, 0o755)
			ioutil.WriteFile(filepath.Join(p, "f"), []byte("x"), 0o644)
			must = ""
		case "noparent":
			// (never the working directory itself)
			if filepath.Clean(filepath.Dir(p)) != filepath.Clean(k.dir) {
				os.RemoveAll(filepath.Dir(p))
				must = ""
			}
		case "foreign":
			foreign, _ = net.Listen("unix", p)
			must = ""
		}
	} else if st.Env == "foreign" && cl.kind == "valid" {
		a := cl.addr
		foreign, _ = net.Listen(cl.network, a)
		if foreign != nil {
			must = "fail"
		}
	}
	ctx := context.Background()
	if st.EndedFirst {
		cctx, cancel := context.WithCancel(ctx)
		cancel()
		if _, ok := k.guarded(i, "Bind (ended context)", func() error { return k.svc.Bind(cctx, st.Addr) }); !ok {
			return false
		}
		if _, ok := k.guarded(i, "Shutdown", func() error { k.svc.Shutdown(); return nil }); !ok {
			return false
		}
		k.count["ended-context.binds"]++
		if p != "" && st.Env == "none" && isSocket(p) {
			k.fail(i, "socket-file", "socket-left-by-bind-under-ended-context", "Bind(%q) under an ended context followed by Shutdown left the socket %s behind", st.Addr, p)
			os.Remove(p)
		}
	}
	served := make(chan error, 1)
	serving := false
	var bindErr error
	switch st.Mode {
	case "bind", "serve", "rebind":
		err, ok := k.guarded(i, "Bind", func() error { return k.svc.Bind(ctx, st.Addr) })
		if !ok {
			return false
		}
		if st.Mode == "rebind" && err == nil && p != "" {
			// a second Bind of the same filesystem path without a Shutdown in between
			// replaces the socket; the first listener leaks and is closed by hand
			// (unlink-on-close disabled: the path now belongs to the second one)
			first, _ := k.svc.GetListener()
			err, ok = k.guarded(i, "second Bind", func() error { return k.svc.Bind(ctx, st.Addr) })
			if !ok {
				return false
			}
			if ul, isUnix := first.(*net.UnixListener); isUnix {
				ul.SetUnlinkOnClose(false)
				ul.Close()
			}
		}
		bindErr = err
		if err == nil && (st.Mode == "serve" || st.Mode == "rebind") {
			serving = true
			go func() { served <- k.svc.DoListen(ctx, 0) }()
		}
	case "listen":
		serving = true
		// a Bind+Shutdown without serving leaves its closed listener in the service:
		// "listening" means a listener other than the one that was there before
		before, _ := k.svc.GetListener()
		go func() {
			defer func() {
				if r := recover(); r != nil {
					served <- fmt.Errorf("PANIC: %v\n%s", r, debug.Stack())
				}
			}()
			served <- k.svc.Listen(ctx, st.Addr, 0)
		}()
		// wait until it is listening or has returned (GetListener takes the
		// service's lock, so the whole wait is guarded)
		_, ok := k.guarded(i, "Listen (neither listening nor returned)", func() error {
			for {
				if l, _ := k.svc.GetListener(); l != nil && l != before {
					return nil
				}
				select {
				case err := <-served:
					serving = false
					bindErr = err
					if err == nil {
						bindErr = fmt.Errorf("Listen returned nil at once")
					}
					return nil
				default:
				}
				time.Sleep(200 * time.Microsecond)
			}
		})
		if !ok {
			return false
		}
		if bindErr != nil && strings.HasPrefix(bindErr.Error(), "PANIC: ") {
			k.fail(i, "no-panic", "panic in Listen", "%v", bindErr)
			return false
		}
	}
	bound := bindErr == nil
	// ---- outcome class
	switch {
	case cl.kind == "refused" && bound:
		k.fail(i, "refusal", "refused-class-accepted", "%s(%q) must be refused but succeeded", st.Mode, st.Addr)
	case must == "ok" && !bound && cl.network == "tcp" && strings.Contains(bindErr.Error(), "address already in use"):
		// the port chosen a moment ago was taken by another process in the meantime: not a finding
		k.count["tcp.port-taken"]++
	case must == "ok" && !bound:
		k.fail(i, "bind", "valid-address-failed", "%s(%q) failed although nothing is in the way (env %s): %v", st.Mode, st.Addr, st.Env, bindErr)
	case must == "fail" && bound:
		k.fail(i, "bind", "bind-of-held-endpoint-succeeded", "%s(%q) succeeded although another listener holds the endpoint", st.Mode, st.Addr)
	}
	if bound && cl.kind == "valid" {
		if p != "" && !isSocket(p) {
			k.fail(i, "socket-file", "socket-not-created", "bound %q but %s is not a socket", st.Addr, p)
		}
		// ---- a client given the same string reaches this service
		if serving {
			err, ok := k.guarded(i, "NewConnection+GetInfo", func() error {
				cctx, cancel := context.WithTimeout(ctx, 15*time.Second)
				defer cancel()
				c, err := varlink.NewConnection(cctx, st.Addr)
				if err != nil {
					return fmt.Errorf("NewConnection: %v", err)
				}
				defer c.Close()
				var product string
				if err := c.GetInfo(cctx, nil, &product, nil, nil, nil); err != nil {
					return fmt.Errorf("GetInfo: %v", err)
				}
				if product != "product-c19-kernel" {
					return fmt.Errorf("another service answered: %q", product)
				}
				return nil
			})
			if !ok {
				return false
			}
			if err != nil && foreign == nil {
				k.fail(i, "reach", "client-does-not-reach-service", "the service is serving %q but a client given the same string fails: %v", st.Addr, err)
			}
			k.count["client.roundtrips"]++
		}
	} else if cl.kind != "valid" {
		// the client side is total as well
		_, ok := k.guarded(i, "NewConnection", func() error {
			cctx, cancel := context.WithTimeout(ctx, 2*time.Second)
			defer cancel()
			c, err := varlink.NewConnection(cctx, st.Addr)
			if err == nil {
				c.Close()
			}
			return nil
		})
		if !ok {
			return false
		}
	}
	// ---- a second Bind while serving: if it is refused, nothing has changed
	if st.BindAgain && serving && bound && cl.kind == "valid" && foreign == nil {
		err2, ok := k.guarded(i, "second Bind while serving", func() error { return k.svc.Bind(ctx, st.Addr) })
		if !ok {
			return false
		}
		k.count["bind-again.while-serving"]++
		if err2 != nil {
			if p != "" && !isSocket(p) {
				k.fail(i, "socket-file", "socket-removed-by-refused-bind", "Bind(%q) while serving was refused (%v), but the socket %s of the running service is gone", st.Addr, err2, p)
			}
			err, ok := k.guarded(i, "NewConnection+GetInfo after the refused Bind", func() error {
				cctx, cancel := context.WithTimeout(ctx, 15*time.Second)
				defer cancel()
				c, err := varlink.NewConnection(cctx, st.Addr)
				if err != nil {
					return fmt.Errorf("NewConnection: %v", err)
				}
				defer c.Close()
				var product string
				return c.GetInfo(cctx, nil, &product, nil, nil, nil)
			})
			if !ok {
				return false
			}
			if err != nil {
				k.fail(i, "reach", "client-does-not-reach-service-after-refused-bind", "Bind(%q) while serving was refused; afterwards a client given the same string fails: %v", st.Addr, err)
			}
		}
	}
	// ---- shut down; the serving call returns; the socket file is gone
	if _, ok := k.guarded(i, "Shutdown", func() error { k.svc.Shutdown(); return nil }); !ok {
		return false
	}
	// ---- a successor binds the address while the first serving call winds down
	var succ *varlink.Service
	succBound := false
	if st.Successor && serving && bound && p != "" && cl.kind == "valid" && foreign == nil {
		succ, _ = varlink.NewService("vendor", "product-c19-successor", "1", "url")
		err, ok := k.guarded(i, "successor Bind", func() error { return succ.Bind(ctx, st.Addr) })
		if !ok {
			return false
		}
		k.count["successor.binds"]++
		if err != nil {
			k.fail(i, "successor", "bind-after-shutdown-failed", "Shutdown of the first service has returned, but another service cannot bind %q: %v", st.Addr, err)
		} else {
			succBound = true
		}
	}
	if serving {
		select {
		case err := <-served:
			if err != nil && strings.HasPrefix(err.Error(), "PANIC: ") {
				k.fail(i, "no-panic", "panic in serving call", "%v", err)
				return false
			}
		case <-time.After(20 * time.Second):
			k.fail(i, "returns", "serving call did not return after Shutdown", "after 20 s")
			k.hung = true
			return false
		}
	}
	if succBound {
		// the first serving call has returned by now: the successor's socket is its own
		if !isSocket(p) {
			k.fail(i, "successor", "socket-removed-by-predecessor", "a second service bound %q after the first one's Shutdown had returned; when the first serving call returned, the second one's socket %s was gone", st.Addr, p)
		} else {
			sdone := make(chan error, 1)
			go func() { sdone <- succ.DoListen(ctx, 0) }()
			err, ok := k.guarded(i, "NewConnection+GetInfo (successor)", func() error {
				cctx, cancel := context.WithTimeout(ctx, 15*time.Second)
				defer cancel()
				c, err := varlink.NewConnection(cctx, st.Addr)
				if err != nil {
					return fmt.Errorf("NewConnection: %v", err)
				}
				defer c.Close()
				var product string
				if err := c.GetInfo(cctx, nil, &product, nil, nil, nil); err != nil {
					return fmt.Errorf("GetInfo: %v", err)
				}
				if product != "product-c19-successor" {
					return fmt.Errorf("another service answered: %q", product)
				}
				return nil
			})
			if !ok {
				return false
			}
			if err != nil {
				k.fail(i, "successor", "client-does-not-reach-successor", "%q: %v", st.Addr, err)
			}
			if _, ok := k.guarded(i, "Shutdown (successor)", func() error { succ.Shutdown(); return nil }); !ok {
				return false
			}
			select {
			case <-sdone:
			case <-time.After(20 * time.Second):
				k.fail(i, "returns", "serving call of the successor did not return after Shutdown", "after 20 s")
				k.hung = true
				return false
			}
		}
		if succ != nil {
			succ.Shutdown()
		}
	}
	// ---- nobody listens any more (or never did): a client given the string
	// returns - with an error, or connected to the foreign listener - also under a
	// context that never ends
	if cl.kind == "valid" {
		k.count["client.dial-nobody-listening"]++
		if _, ok := k.guarded(i, "NewConnection without deadline, nobody listening", func() error {
			c, err := varlink.NewConnection(context.Background(), st.Addr)
			if err == nil {
				c.Close()
			}
			return nil
		}); !ok {
			return false
		}
	}
	if bound && p != "" && foreign == nil && exists(p) && isSocket(p) {
		k.fail(i, "socket-file", "socket-not-removed", "%q was bound and shut down but the socket %s still exists", st.Addr, p)
	}
	// leave a clean slate for the next step
	if p != "" {
		os.RemoveAll(p)
	}
	return true
}

func kRun(h kHistory, dir string) ([]kViolation, map[string]int, bool) {
	svc, err := varlink.NewService("vendor", "product-c19-kernel", "1", "url")
	if err != nil {
		panic(err)
	}
	k := &kRunner{dir: dir, svc: svc, h: h, count: map[string]int{}}
	for i, st := range h.Steps {
		if !k.step(i, st) {
			break
		}
	}
	return k.viol, k.count, k.hung
}

func TestVerifC19Kernel(t *testing.T) {
	specPath := os.Getenv("VERIF_KSPEC")
	if specPath == "" {
		t.Skip("VERIF_KSPEC not set")
	}
	raw, err := ioutil.ReadFile(specPath)
	if err != nil {
		t.Fatal(err)
	}
	var spec kSpec
	if err := json.Unmarshal(raw, &spec); err != nil {
		t.Fatal(err)
	}
	dir, err := ioutil.TempDir("", "verif-c19-")
	if err != nil {
		t.Fatal(err)
	}
	defer os.RemoveAll(dir)
	if err := os.Chdir(dir); err != nil {
		t.Fatal(err)
	}
	sum := kSummary{Counters: map[string]int{}}
	distinct := map[string]bool{}
	flush := func() {
		sum.Distinct = len(distinct)
		b, _ := json.Marshal(sum)
		ioutil.WriteFile(spec.Out, b, 0o644)
	}
	one := func(h kHistory) bool {
		viol, cnt, hung := kRun(h, dir)
		sum.Runs++
		sum.Steps += len(h.Steps)
		for c, n := range cnt {
			sum.Counters[c] += n
		}
		sig := ""
		for _, st := range h.Steps {
			sig += kClassify(st.Addr).kind + "/" + kClassify(st.Addr).network + "/" + st.Env + "/" + st.Mode + ";"
		}
		distinct[sig] = true
		if len(sum.Samples) < 2 {
			sum.Samples = append(sum.Samples, h)
		}
		if len(viol) > 0 && len(sum.Violations) < 8 {
			sum.Violations = append(sum.Violations, viol[0])
		}
		sum.Hung = sum.Hung || hung
		return !hung
	}
	if spec.Replay != nil {
		one(*spec.Replay)
		flush()
		return
	}
	deadline := time.Now().Add(time.Duration(spec.BudgetMs) * time.Millisecond)
	stride := spec.Stride
	if stride == 0 {
		stride = 1
	}
	for i := int64(0); i < spec.Count; i++ {
		if spec.BudgetMs > 0 && time.Now().After(deadline) {
			break
		}
		index := spec.IndexFrom + i*stride
		seed := spec.SeedBase*1000003 + index
		if !one(kGen(seed, dir)) {
			break // a hung call holds library locks: this process is done
		}
		if i%50 == 0 {
			flush()
		}
	}
	flush()
}
