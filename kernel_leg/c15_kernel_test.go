package varlink_test

// C15, real-listener leg (added by /verif to a scratch copy of the working
// tree; not part of varlink/go). The simulation decides C15's timing clauses
// exactly on a simulated clock and a simulated listener; what it cannot
// represent is whether the accept deadline works on the REAL listener types
// (a *net.TCPListener whose descriptor was switched to blocking mode accepts
// SetDeadline and ignores it; a wrapper type without SetDeadline is skipped by
// the service's type switch). This leg serves with an idle timeout on
// filesystem unix, abstract unix and tcp listeners. Not simulated; nothing
// depends on a tight wall-clock bound: the idle timeout (20-120 ms) must have
// ended an unvisited service after 5 s ("late") or 20 s ("never"), and a
// service must not have stopped while a connection that was opened before the
// first expiry is still open - an ordering fact, whatever the load.

import (
	"context"
	"encoding/json"
	"fmt"
	"io/ioutil"
	"math/rand"
	"os"
	"path/filepath"
	"testing"
	"time"

	"github.com/varlink/go/varlink"
)

type iHistory struct {
	Seed      int64  `json:"seed"`
	Transport string `json:"transport"`
	TimeoutMs int    `json:"timeout_ms"`
	// Kind: idle (nobody comes) | hold (a client connects at once, makes a call,
	// keeps the connection open for HoldMs > 2 x timeout, then closes) | visit (a
	// client connects, calls and closes at once; then nobody comes)
	Kind   string `json:"kind"`
	HoldMs int    `json:"hold_ms"`
	Listen bool   `json:"listen"` // Listen instead of Bind + DoListen
}

type iViolation struct {
	Clause  string   `json:"clause"`
	Key     string   `json:"key"`
	Detail  string   `json:"detail"`
	History iHistory `json:"history"`
}

func iGen(seed int64) iHistory {
	r := rand.New(rand.NewSource(seed))
	h := iHistory{Seed: seed, Transport: []string{"unix-fs", "unix-abstract", "tcp", "tcp"}[r.Intn(4)], TimeoutMs: 20 + r.Intn(100),
		Kind: []string{"idle", "idle", "hold", "visit"}[r.Intn(4)], Listen: r.Intn(2) == 0}
	h.HoldMs = 2*h.TimeoutMs + 20 + r.Intn(100)
	return h
}

var iCounter int
var iHung bool

func iRun(h iHistory, dir string) (viol []iViolation) {
	fail := func(clause, key, format string, a ...interface{}) {
		viol = append(viol, iViolation{clause, key + " " + h.Transport, fmt.Sprintf(format, a...), h})
	}
	iCounter++
	ctx := context.Background()
	addr := ""
	switch h.Transport {
	case "unix-fs":
		addr = "unix:" + filepath.Join(dir, fmt.Sprintf("i%d", iCounter))
	case "unix-abstract":
		addr = fmt.Sprintf("unix:@verif-c15-%d-%d", os.Getpid(), iCounter)
	default:
		addr = fmt.Sprintf("tcp:127.0.0.1:%d", freePort())
	}
	svc := tService()
	to := time.Duration(h.TimeoutMs) * time.Millisecond
	done := make(chan error, 1)
	if h.Listen {
		go func() { done <- svc.Listen(ctx, addr, to) }()
		// wait until it listens or has returned
		for i := 0; ; i++ {
			if l, _ := svc.GetListener(); l != nil {
				break
			}
			select {
			case err := <-done:
				// (on a loaded machine an unvisited service may have served its whole
				// idle period before this loop saw its listener: that is the timeout)
				if _, timedOut := err.(varlink.ServiceTimeoutError); !timedOut && h.Transport != "tcp" {
					fail("transport", "listen-failed", "%s: %v", addr, err)
				}
				return
			default:
			}
			if i > 20000 {
				fail("transport", "listen-neither-listening-nor-returned", "%s", addr)
				iHung = true
				return
			}
			time.Sleep(200 * time.Microsecond)
		}
	} else {
		if err := svc.Bind(ctx, addr); err != nil {
			if h.Transport != "tcp" {
				fail("transport", "bind-failed", "%s: %v", addr, err)
			}
			return
		}
		go func() { done <- svc.DoListen(ctx, to) }()
	}
	started := time.Now()
	// (the result of the serving call is taken from the channel once and remembered)
	var final error
	finished := false
	returned := func() (error, bool) {
		if finished {
			return final, true
		}
		select {
		case err := <-done:
			final, finished = err, true
			return err, true
		default:
			return nil, false
		}
	}
	waitDone := func(d time.Duration) bool {
		if finished {
			return true
		}
		select {
		case err := <-done:
			final, finished = err, true
			return true
		case <-time.After(d):
			return false
		}
	}
	isTimeout := func(err error) bool {
		_, ok := err.(varlink.ServiceTimeoutError)
		return ok
	}
	// awaitStop: the service, visited by nobody from now on, stops by itself
	awaitStop := func(what string) {
		t0 := time.Now()
		if waitDone(20 * time.Second) {
			if !isTimeout(final) {
				fail("timeout", "stopped-with-another-error", "%s: the serving call returned %v instead of the timeout error", what, final)
			} else if time.Since(t0) > 5*time.Second+to {
				fail("timeout", "timeout-late", "%s: idle timeout %v, the serving call returned only after %v", what, to, time.Since(t0))
			}
		} else {
			fail("timeout", "timeout-never-fired", "%s: idle timeout %v, nobody connected, the serving call has not returned after 20 s", what, to)
			// (a listener that ignores its deadline may not be closable either: whatever
			// happens now, this process is finished)
			iHung = true
			sd := make(chan struct{})
			go func() { svc.Shutdown(); close(sd) }()
			select {
			case <-sd:
			case <-time.After(5 * time.Second):
			}
		}
	}
	switch h.Kind {
	case "idle":
		awaitStop("unvisited service")
	case "hold", "visit":
		cctx, cancel := context.WithTimeout(ctx, 15*time.Second)
		defer cancel()
		conn, err := varlink.NewConnection(cctx, addr)
		if err != nil {
			// the service may have stopped already (a loaded machine): only if it did
			if _, ok := returned(); !ok && time.Since(started) < to/2 {
				fail("must-serve", "connect-failed", "%v after the start of serving (timeout %v): %v", time.Since(started), to, err)
			}
			svc.Shutdown()
			if !waitDone(20 * time.Second) {
				fail("returns", "serving-call-did-not-return-after-shutdown", "after 20 s")
				iHung = true
			}
			return
		}
		connectedAfter := time.Since(started)
		raw := json.RawMessage(`{"x":1}`)
		var out json.RawMessage
		cerr := conn.Call(cctx, "org.verif.echo.Echo", &raw, &out)
		if h.Kind == "hold" {
			time.Sleep(time.Duration(h.HoldMs) * time.Millisecond)
			// an ordering fact: the connection is still open, and it was opened before
			// the first expiry (else nothing is claimed)
			if err, ok := returned(); ok && connectedAfter < to/2 && cerr == nil {
				fail("timeout", "stopped-with-open-connection", "idle timeout %v: the serving call returned (%v) while a connection opened %v after the start was still open and had been served", to, err, connectedAfter)
				conn.Close()
				return
			} else if ok {
				conn.Close()
				return
			}
		}
		conn.Close()
		awaitStop("service whose last connection has just ended")
	}
	return
}

func TestVerifC15Kernel(t *testing.T) {
	specPath := os.Getenv("VERIF_KSPEC")
	if specPath == "" || os.Getenv("VERIF_BRIDGE_CHILD") != "" {
		t.Skip("VERIF_KSPEC not set")
	}
	raw, err := ioutil.ReadFile(specPath)
	if err != nil {
		t.Fatal(err)
	}
	var spec struct {
		SeedBase  int64     `json:"seed_base"`
		IndexFrom int64     `json:"index_from"`
		Stride    int64     `json:"stride"`
		Count     int64     `json:"count"`
		BudgetMs  int64     `json:"budget_ms"`
		Out       string    `json:"out"`
		Replay    *iHistory `json:"replay,omitempty"`
	}
	if err := json.Unmarshal(raw, &spec); err != nil {
		t.Fatal(err)
	}
	dir, err := ioutil.TempDir("", "verif-c15-")
	if err != nil {
		t.Fatal(err)
	}
	defer os.RemoveAll(dir)
	var sum struct {
		Runs       int            `json:"runs"`
		Steps      int            `json:"steps"`
		Distinct   int            `json:"distinct"`
		Counters   map[string]int `json:"counters"`
		Violations []iViolation   `json:"violations"`
		Samples    []iHistory     `json:"samples"`
	}
	sum.Counters = map[string]int{}
	distinct := map[string]bool{}
	flush := func() {
		sum.Distinct = len(distinct)
		b, _ := json.Marshal(sum)
		ioutil.WriteFile(spec.Out, b, 0o644)
	}
	one := func(h iHistory) {
		v := iRun(h, dir)
		sum.Runs++
		sum.Steps++
		sum.Counters["transport."+h.Transport]++
		sum.Counters["kind."+h.Kind]++
		distinct[fmt.Sprintf("%s/%s/%v/%d", h.Transport, h.Kind, h.Listen, h.TimeoutMs/20)] = true
		if len(sum.Samples) < 2 {
			sum.Samples = append(sum.Samples, h)
		}
		if len(v) > 0 && len(sum.Violations) < 8 {
			sum.Violations = append(sum.Violations, v[0])
		}
	}
	if spec.Replay != nil {
		one(*spec.Replay)
		flush()
		return
	}
	deadline := time.Now().Add(time.Duration(spec.BudgetMs) * time.Millisecond)
	stride := spec.Stride
	if stride == 0 {
		stride = 1
	}
	for i := int64(0); i < spec.Count; i++ {
		if spec.BudgetMs > 0 && time.Now().After(deadline) {
			break
		}
		one(iGen(spec.SeedBase*1000003 + spec.IndexFrom + i*stride))
		if iHung {
			break
		}
		if i%10 == 0 {
			flush()
		}
	}
	flush()
}
