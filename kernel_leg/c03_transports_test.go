package varlink_test

// C03, real-transport leg (added by /verif to a scratch copy of the working
// tree; not part of varlink/go). The simulated stream stands for all socket
// transports and the bridge subprocess is a stub in the simulation; this leg
// runs seeded call / reply / more-sequence round trips over the four REAL
// transports — filesystem unix socket, abstract unix socket, tcp, and a bridge
// subprocess (this test binary re-executed through `sh -c` by
// varlink.NewBridge, serving one connection on its stdio) — and compares what
// the handler read and what the client received with what was passed, as JSON
// with numbers compared digit for digit. Not simulated: no schedule or fault is
// controlled here.

import (
	"bufio"
	"bytes"
	"context"
	"encoding/json"
	"fmt"
	"io/ioutil"
	"math/rand"
	"os"
	"path/filepath"
	"sort"
	"strings"
	"testing"
	"time"

	"github.com/varlink/go/varlink"
)

// ---- the echo interface: Echo replies its parameters; More replies "n"
// continues-replies and a final one, each carrying the parameters and its index

type tEcho struct{}

func (tEcho) VarlinkGetName() string        { return "org.verif.echo" }
func (tEcho) VarlinkGetDescription() string { return "interface org.verif.echo\nmethod Echo() -> ()" }
func (tEcho) VarlinkDispatch(ctx context.Context, c varlink.Call, m string) error {
	var raw json.RawMessage
	if err := c.GetParameters(&raw); err != nil {
		raw = json.RawMessage(`{}`)
	}
	switch m {
	case "Echo":
		return c.Reply(ctx, &raw)
	case "Sleep": // busy for "ms" milliseconds, reading nothing meanwhile
		var p struct {
			Ms int `json:"ms"`
		}
		json.Unmarshal(raw, &p)
		time.Sleep(time.Duration(p.Ms) * time.Millisecond)
		return c.Reply(ctx, &raw)
	case "Touch": // creates the file "file": the call has been read by the handler
		var p struct {
			File string `json:"file"`
			Pad  string `json:"pad"`
		}
		json.Unmarshal(raw, &p)
		ioutil.WriteFile(p.File, []byte(fmt.Sprint(len(p.Pad))), 0o644)
		return c.Reply(ctx, json.RawMessage(`{}`))
	case "Hold": // (C17 leg) stays silent, and reads nothing, until the file "file" exists
		var p struct {
			File string `json:"file"`
		}
		json.Unmarshal(raw, &p)
		for i := 0; i < 30000; i++ {
			if _, err := os.Stat(p.File); err == nil {
				break
			}
			time.Sleep(time.Millisecond)
		}
		return c.Reply(ctx, &raw)
	case "More":
		var p struct {
			N int `json:"n"`
		}
		json.Unmarshal(raw, &p)
		for i := 0; i < p.N; i++ {
			c.Continues = true
			if err := c.Reply(ctx, json.RawMessage(fmt.Sprintf(`{"i":%d,"p":%s}`, i, raw))); err != nil {
				return err
			}
		}
		c.Continues = false
		return c.Reply(ctx, json.RawMessage(fmt.Sprintf(`{"i":%d,"p":%s}`, p.N, raw)))
	}
	return c.ReplyMethodNotFound(ctx, m)
}

func tService() *varlink.Service {
	svc, err := varlink.NewService("v", "c03-transports", "1", "u")
	if err != nil {
		panic(err)
	}
	if err := svc.RegisterInterface(tEcho{}); err != nil {
		panic(err)
	}
	return svc
}

// ---- the bridge child: serves the echo service on stdin/stdout

type stdioConn struct {
	r *bufio.Reader
	w *os.File
}

func (s *stdioConn) Write(ctx context.Context, b []byte) (int, error) { return s.w.Write(b) }
func (s *stdioConn) Read(ctx context.Context, b []byte) (int, error)  { return s.r.Read(b) }
func (s *stdioConn) ReadBytes(ctx context.Context, d byte) ([]byte, error) {
	return s.r.ReadBytes(d)
}

func TestVerifBridgeChild(t *testing.T) {
	if os.Getenv("VERIF_BRIDGE_CHILD") == "" {
		t.Skip("not a bridge child")
	}
	svc := tService()
	conn := &stdioConn{r: bufio.NewReader(os.Stdin), w: os.Stdout}
	limit := 1 << 30
	fmt.Sscan(os.Getenv("VERIF_BRIDGE_CALLS"), &limit)
	for n := 0; n < limit; n++ {
		req, err := conn.ReadBytes(context.Background(), 0)
		if err != nil {
			break
		}
		if err := svc.HandleMessage(context.Background(), conn, req[:len(req)-1]); err != nil {
			break
		}
	}
	// a one-shot bridge: exits as soon as it has written its replies
	os.Exit(0)
}

// ---- canonical JSON: members sorted, numbers as written

func tCanon(raw []byte) string {
	dec := json.NewDecoder(bytes.NewReader(raw))
	dec.UseNumber()
	var v interface{}
	if err := dec.Decode(&v); err != nil {
		return "!invalid:" + string(raw)
	}
	var b bytes.Buffer
	tWrite(&b, v)
	return b.String()
}

func tWrite(b *bytes.Buffer, v interface{}) {
	switch x := v.(type) {
	case nil:
		b.WriteString("null")
	case bool:
		fmt.Fprintf(b, "%v", x)
	case json.Number:
		b.WriteString(string(x))
	case string:
		q, _ := json.Marshal(x)
		b.Write(q)
	case []interface{}:
		b.WriteByte('[')
		for i, e := range x {
			if i > 0 {
				b.WriteByte(',')
			}
			tWrite(b, e)
		}
		b.WriteByte(']')
	case map[string]interface{}:
		keys := make([]string, 0, len(x))
		for k := range x {
			keys = append(keys, k)
		}
		sort.Strings(keys)
		b.WriteByte('{')
		for i, k := range keys {
			if i > 0 {
				b.WriteByte(',')
			}
			q, _ := json.Marshal(k)
			b.Write(q)
			b.WriteByte(':')
			tWrite(b, x[k])
		}
		b.WriteByte('}')
	}
}

// ---- generation

func tParams(r *rand.Rand) string {
	nums := []string{"0", "-0", "9007199254740993", "-9223372036854775808", "18446744073709551616", "1e400", "0.1000000000000000055511151231257827", "1.0", "1E+2", "-1.5e-7"}
	strs := []string{`""`, `"a"`, `"\u0000\u001f\""`, `"😀􏿿"`, `"<&> "`, `"é中"`}
	var val func(d int) string
	val = func(d int) string {
		switch k := r.Intn(8); {
		case k < 2:
			return nums[r.Intn(len(nums))]
		case k < 4:
			return strs[r.Intn(len(strs))]
		case k == 4:
			return []string{"null", "true", "false", "{}", "[]"}[r.Intn(5)]
		case k == 5 && d > 0:
			n := r.Intn(4)
			parts := make([]string, n)
			for i := range parts {
				parts[i] = val(d - 1)
			}
			return "[" + strings.Join(parts, ",") + "]"
		case d > 0:
			n := r.Intn(4)
			parts := make([]string, n)
			for i := range parts {
				parts[i] = fmt.Sprintf(`"k%d":%s`, i, val(d-1))
			}
			return "{" + strings.Join(parts, ",") + "}"
		}
		return nums[r.Intn(len(nums))]
	}
	n := r.Intn(5)
	parts := []string{}
	for i := 0; i < n; i++ {
		parts = append(parts, fmt.Sprintf(`"m%d":%s`, i, val(3)))
	}
	if r.Intn(10) == 0 {
		parts = append(parts, fmt.Sprintf(`"big":"%s"`, strings.Repeat("x", 3000+r.Intn(9000))))
	}
	return "{" + strings.Join(parts, ",") + "}"
}

type tCall struct {
	More   int    `json:"more"` // -1: plain Echo; >= 0: More with that many continues-replies
	Params string `json:"params"`
}

type tHistory struct {
	Seed      int64   `json:"seed"`
	Transport string  `json:"transport"`
	Calls     []tCall `json:"calls"`
	// Final: "oneway-close" - after the calls, a oneway call that keeps the
	// service busy for 200 ms, a oneway call with PadKiB KiB of parameters, and
	// Close at once: what Send reported as sent is read by the handler
	Final  string `json:"final,omitempty"`
	PadKiB int    `json:"pad_kib,omitempty"`
	// DialCtxEnds (socket transports): the connection is dialled under a context
	// of its own that is cancelled as soon as NewConnection has returned; it was
	// only meant to bound the dial
	DialCtxEnds bool `json:"dial_ctx_ends,omitempty"`
}

type tViolation struct {
	Clause  string   `json:"clause"`
	Key     string   `json:"key"`
	Detail  string   `json:"detail"`
	History tHistory `json:"history"`
}

func tGen(seed int64) tHistory {
	r := rand.New(rand.NewSource(seed))
	h := tHistory{Seed: seed, Transport: []string{"unix-fs", "unix-abstract", "tcp", "bridge", "bridge"}[r.Intn(5)]}
	for i, n := 0, 1+r.Intn(4); i < n; i++ {
		c := tCall{More: -1, Params: tParams(r)}
		if r.Intn(3) == 0 {
			c.More = r.Intn(6)
			if r.Intn(8) == 0 {
				c.More = 20 + r.Intn(30)
			}
		}
		h.Calls = append(h.Calls, c)
	}
	h.DialCtxEnds = r.Intn(3) == 0
	if r.Intn(6) == 0 {
		h.Final, h.PadKiB = "oneway-close", []int{0, 1, 100, 4096}[r.Intn(4)]
	}
	return h
}

var tCounter int
var tHung bool

func tRun(h tHistory, dir string) (viol []tViolation) {
	fail := func(clause, key, format string, a ...interface{}) {
		viol = append(viol, tViolation{clause, key + " " + h.Transport, fmt.Sprintf(format, a...), h})
	}
	ctx, cancel := context.WithTimeout(context.Background(), 30*time.Second)
	defer cancel()
	tCounter++
	var conn *varlink.Connection
	var err error
	done := make(chan error, 1)
	var svc *varlink.Service
	if h.Transport == "bridge" {
		os.Setenv("VERIF_BRIDGE_CHILD", "1")
		// a one-shot bridge: it exits as soon as it has written its last reply
		// (a bridge that is reaped early loses what the client has not read yet)
		nCalls := len(h.Calls)
		if h.Final == "oneway-close" {
			nCalls += 2
		}
		os.Setenv("VERIF_BRIDGE_CALLS", fmt.Sprint(nCalls))
		conn, err = varlink.NewBridgeWithStderr("exec "+os.Args[0]+" -test.run='^TestVerifBridgeChild$'", ioutil.Discard)
		os.Unsetenv("VERIF_BRIDGE_CHILD")
		if err != nil {
			fail("transport", "bridge-start-failed", "%v", err)
			return
		}
	} else {
		addr := ""
		switch h.Transport {
		case "unix-fs":
			addr = "unix:" + filepath.Join(dir, fmt.Sprintf("t%d", tCounter))
		case "unix-abstract":
			addr = fmt.Sprintf("unix:@verif-c03-%d-%d", os.Getpid(), tCounter)
		default:
			addr = fmt.Sprintf("tcp:127.0.0.1:%d", freePort())
		}
		svc = tService()
		if err := svc.Bind(ctx, addr); err != nil {
			if h.Transport == "tcp" {
				return // the port was taken in the meantime: not a finding
			}
			fail("transport", "bind-failed", "%s: %v", addr, err)
			return
		}
		go func() { done <- svc.DoListen(ctx, 0) }()
		dctx, dcancel := context.WithCancel(ctx)
		conn, err = varlink.NewConnection(dctx, addr)
		if h.DialCtxEnds {
			dcancel()
			time.Sleep(2 * time.Millisecond)
		} else {
			defer dcancel()
		}
		if err != nil {
			fail("transport", "connect-failed", "%s: %v", addr, err)
			svc.Shutdown()
			return
		}
	}
	for i, c := range h.Calls {
		method, params := "org.verif.echo.Echo", c.Params
		var flags uint64
		if c.More >= 0 {
			method, flags = "org.verif.echo.More", varlink.More
			params = fmt.Sprintf(`{"n":%d,"x":%s}`, c.More, c.Params)
		}
		raw := json.RawMessage(params)
		recv, err := conn.Send(ctx, method, &raw, flags)
		if err != nil {
			fail("roundtrip", "send-failed", "call %d: %v", i, err)
			break
		}
		want := 1
		if c.More >= 0 {
			want = c.More + 1
		}
		broken := false
		for j := 0; j < want; j++ {
			var out json.RawMessage
			f, err := recv(ctx, &out)
			if err != nil {
				fail("roundtrip", "reply-lost", "call %d reply %d of %d: %v", i, j, want, err)
				broken = true
				break
			}
			exp := params
			if c.More >= 0 {
				exp = fmt.Sprintf(`{"i":%d,"p":%s}`, j, params)
			}
			if tCanon(out) != tCanon([]byte(exp)) {
				fail("roundtrip", "parameters-changed", "call %d reply %d: sent %.300s, received %.300s", i, j, tCanon([]byte(exp)), tCanon(out))
				broken = true
				break
			}
			if (f&varlink.Continues != 0) != (j < want-1) {
				fail("roundtrip", "continues-flag", "call %d reply %d of %d: continues=%v", i, j, want, f&varlink.Continues != 0)
				broken = true
				break
			}
		}
		if broken {
			break
		}
	}
	marker := ""
	if h.Final == "oneway-close" && len(viol) == 0 {
		marker = filepath.Join(dir, fmt.Sprintf("touched-%d", tCounter))
		busy := json.RawMessage(`{"ms":200}`)
		pad := json.RawMessage(fmt.Sprintf(`{"file":%q,"pad":%q}`, marker, strings.Repeat("p", h.PadKiB<<10)))
		_, err1 := conn.Send(ctx, "org.verif.echo.Sleep", &busy, varlink.Oneway)
		_, err2 := conn.Send(ctx, "org.verif.echo.Touch", &pad, varlink.Oneway)
		if err1 != nil || err2 != nil {
			fail("roundtrip", "oneway-send-failed", "%v / %v", err1, err2)
			marker = ""
		}
	}
	// a library call that does not return is a finding, and this process is done
	closed := make(chan struct{})
	go func() { conn.Close(); close(closed) }()
	select {
	case <-closed:
	case <-time.After(20 * time.Second):
		fail("transport", "close-did-not-return", "Connection.Close has not returned after 20 s")
		tHung = true
		return
	}
	if marker != "" {
		// Send reported both calls as sent and the connection was closed in an orderly
		// way: the handler reads them (the bridge child has exited by now; a socket
		// service gets ten seconds)
		deadline := time.Now().Add(10 * time.Second)
		for {
			if _, err := os.Stat(marker); err == nil {
				break
			}
			if h.Transport == "bridge" || time.Now().After(deadline) {
				fail("roundtrip", "oneway-call-lost-at-close", "a oneway call with %d KiB of parameters was sent (Send returned nil) and the connection closed; the handler never read it", h.PadKiB)
				break
			}
			time.Sleep(2 * time.Millisecond)
		}
	}
	if svc != nil {
		svc.Shutdown()
		select {
		case <-done:
		case <-time.After(20 * time.Second):
			fail("transport", "serving-call-did-not-return", "after Shutdown")
		}
	}
	return
}

func TestVerifC03Transports(t *testing.T) {
	specPath := os.Getenv("VERIF_KSPEC")
	if specPath == "" || os.Getenv("VERIF_BRIDGE_CHILD") != "" {
		t.Skip("VERIF_KSPEC not set")
	}
	raw, err := ioutil.ReadFile(specPath)
	if err != nil {
		t.Fatal(err)
	}
	var spec struct {
		SeedBase  int64     `json:"seed_base"`
		IndexFrom int64     `json:"index_from"`
		Stride    int64     `json:"stride"`
		Count     int64     `json:"count"`
		BudgetMs  int64     `json:"budget_ms"`
		Out       string    `json:"out"`
		Replay    *tHistory `json:"replay,omitempty"`
	}
	if err := json.Unmarshal(raw, &spec); err != nil {
		t.Fatal(err)
	}
	dir, err := ioutil.TempDir("", "verif-c03-")
	if err != nil {
		t.Fatal(err)
	}
	defer os.RemoveAll(dir)
	var sum struct {
		Runs       int            `json:"runs"`
		Steps      int            `json:"steps"`
		Distinct   int            `json:"distinct"`
		Counters   map[string]int `json:"counters"`
		Violations []tViolation   `json:"violations"`
		Samples    []tHistory     `json:"samples"`
	}
	sum.Counters = map[string]int{}
	distinct := map[string]bool{}
	flush := func() {
		sum.Distinct = len(distinct)
		b, _ := json.Marshal(sum)
		ioutil.WriteFile(spec.Out, b, 0o644)
	}
	one := func(h tHistory) {
		v := tRun(h, dir)
		sum.Runs++
		sum.Steps += len(h.Calls)
		sum.Counters["transport."+h.Transport]++
		for _, c := range h.Calls {
			if c.More >= 0 {
				sum.Counters["more_sequences"]++
				sum.Counters["replies"] += c.More
			}
			sum.Counters["replies"]++
		}
		distinct[fmt.Sprintf("%s/%d/%x", h.Transport, len(h.Calls), h.Seed%64)] = true
		if len(sum.Samples) < 2 {
			sum.Samples = append(sum.Samples, h)
		}
		if len(v) > 0 && len(sum.Violations) < 8 {
			sum.Violations = append(sum.Violations, v[0])
		}
	}
	if spec.Replay != nil {
		one(*spec.Replay)
		flush()
		return
	}
	deadline := time.Now().Add(time.Duration(spec.BudgetMs) * time.Millisecond)
	stride := spec.Stride
	if stride == 0 {
		stride = 1
	}
	for i := int64(0); i < spec.Count; i++ {
		if spec.BudgetMs > 0 && time.Now().After(deadline) {
			break
		}
		one(tGen(spec.SeedBase*1000003 + spec.IndexFrom + i*stride))
		if tHung {
			break
		}
		if i%20 == 0 {
			flush()
		}
	}
	flush()
}
