// Package simhook is the seam between the instrumented copy of varlink/go and
// the deterministic simulator in /verif/harness. It is ADDED to a scratch copy
// of the repository by /verif's build pipeline; nothing in /repo refers to it.
//
// With H == nil every hook is a no-op and Mutex behaves like sync.Mutex.
package simhook

import (
	"sync"
	"sync/atomic"
	"unsafe"
)

// Hooks is implemented by the simulator kernel.
type Hooks interface {
	// Yield is a possible preemption point in front of a statement.
	Yield(site string)
	// Go starts fn as a new simulated task; the implementation executes
	// the real go statement on the caller's goroutine.
	Go(site string, fn func())
	// Acquire blocks (in the simulator) until the lock is granted.
	Acquire(m uintptr, read bool, site string)
	// TryAcquire never blocks.
	TryAcquire(m uintptr, read bool, site string) bool
	// Release tells the simulator that the lock has been released.
	Release(m uintptr, read bool, site string)
	// Select decides which of n communication clauses of a select statement
	// is polled first (the clauses are polled in rotation from that index).
	Select(site string, n int) int
}

// H is set by the harness before any library code runs and never changed
// while tasks are alive.
var H Hooks

// Yield marks a statement boundary.
func Yield(site string) {
	if h := H; h != nil {
		h.Yield(site)
	}
}

// Select is called in front of a select statement with n >= 2 communication clauses.
func Select(site string, n int) int {
	if h := H; h != nil {
		return h.Select(site, n)
	}
	return 0
}

// Go replaces a go statement.
func Go(site string, fn func()) {
	if h := H; h != nil {
		h.Go(site, fn)
		return
	}
	go fn()
}

// Mutex replaces sync.Mutex in instrumented code. The simulator grants
// ownership first (so that it always knows who holds what and can detect
// a deadlock), then the real mutex is taken, which keeps the
// happens-before edges the race detector sees exactly those of sync.Mutex.
type Mutex struct {
	mu sync.Mutex
}

func (m *Mutex) Lock() {
	if h := H; h != nil {
		h.Acquire(uintptr(unsafe.Pointer(m)), false, "")
	}
	m.mu.Lock()
}

func (m *Mutex) TryLock() bool {
	if h := H; h != nil {
		if !h.TryAcquire(uintptr(unsafe.Pointer(m)), false, "") {
			return false
		}
		m.mu.Lock()
		return true
	}
	return m.mu.TryLock()
}

func (m *Mutex) Unlock() {
	m.mu.Unlock()
	if h := H; h != nil {
		h.Release(uintptr(unsafe.Pointer(m)), false, "")
	}
}

// Once replaces sync.Once: callers that arrive while the first one is still
// inside f wait on a mutex the scheduler knows (a task must never block on a
// real lock while its holder is parked).
type Once struct {
	m    Mutex
	done bool
}

func (o *Once) Do(f func()) {
	o.m.Lock()
	defer o.m.Unlock()
	if !o.done {
		defer func() { o.done = true }()
		f()
	}
}

// RWMutex replaces sync.RWMutex.
type RWMutex struct {
	mu sync.RWMutex
}

func (m *RWMutex) Lock() {
	if h := H; h != nil {
		h.Acquire(uintptr(unsafe.Pointer(m)), false, "")
	}
	m.mu.Lock()
}

func (m *RWMutex) Unlock() {
	m.mu.Unlock()
	if h := H; h != nil {
		h.Release(uintptr(unsafe.Pointer(m)), false, "")
	}
}

func (m *RWMutex) RLock() {
	if h := H; h != nil {
		h.Acquire(uintptr(unsafe.Pointer(m)), true, "")
	}
	m.mu.RLock()
}

func (m *RWMutex) RUnlock() {
	m.mu.RUnlock()
	if h := H; h != nil {
		h.Release(uintptr(unsafe.Pointer(m)), true, "")
	}
}

func (m *RWMutex) TryLock() bool {
	if h := H; h != nil {
		if !h.TryAcquire(uintptr(unsafe.Pointer(m)), false, "") {
			return false
		}
		m.mu.Lock()
		return true
	}
	return m.mu.TryLock()
}

func (m *RWMutex) TryRLock() bool {
	if h := H; h != nil {
		if !h.TryAcquire(uintptr(unsafe.Pointer(m)), true, "") {
			return false
		}
		m.mu.RLock()
		return true
	}
	return m.mu.TryRLock()
}

// RLocker mirrors sync.RWMutex.RLocker.
func (m *RWMutex) RLocker() sync.Locker { return (*rlocker)(m) }

type rlocker RWMutex

func (r *rlocker) Lock()   { (*RWMutex)(r).RLock() }
func (r *rlocker) Unlock() { (*RWMutex)(r).RUnlock() }

// Pool replaces sync.Pool in instrumented code. sync.Pool's contract lets Get
// return any object that was Put before, or a new one, at the runtime's whim
// (per-P caches, GC); that whim is a source of nondeterminism the simulator
// has to own: under the simulator the choice is the kernel's (Select), and
// every pool is emptied at the start of a run so that one seed is one execution.
type Pool struct {
	New func() interface{}

	mu    sync.Mutex
	items []interface{}
	known int32
}

var (
	poolsMu sync.Mutex
	pools   []*Pool
)

// ResetPools empties every pool that was used so far (start of a run).
func ResetPools() {
	poolsMu.Lock()
	defer poolsMu.Unlock()
	for _, p := range pools {
		p.mu.Lock()
		p.items = nil
		p.mu.Unlock()
	}
}

// register is called without p.mu held (ResetPools takes poolsMu, then p.mu).
func (p *Pool) register() {
	if atomic.CompareAndSwapInt32(&p.known, 0, 1) {
		poolsMu.Lock()
		pools = append(pools, p)
		poolsMu.Unlock()
	}
}

// Put adds x to the pool.
func (p *Pool) Put(x interface{}) {
	if x == nil {
		return
	}
	p.register()
	p.mu.Lock()
	p.items = append(p.items, x)
	p.mu.Unlock()
}

// Get returns a pooled object chosen by the simulator, or a new one.
func (p *Pool) Get() interface{} {
	p.mu.Lock()
	n := len(p.items)
	p.mu.Unlock()
	choice := n // without simulator: most recently put
	if h := H; h != nil && n > 0 {
		// 0 = a new object, i = the i-th pooled one
		choice = h.Select("sync.Pool.Get", n+1)
	}
	p.register()
	p.mu.Lock()
	if choice > 0 && choice <= len(p.items) {
		x := p.items[choice-1]
		p.items = append(p.items[:choice-1], p.items[choice:]...)
		p.mu.Unlock()
		return x
	}
	p.mu.Unlock()
	// New is instrumented code and may park: never call it with the lock held
	if p.New != nil {
		return p.New()
	}
	return nil
}
