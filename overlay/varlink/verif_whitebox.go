package varlink

// Added by /verif's build pipeline to a scratch copy of the repository: the
// constructors the library only offers through a real dial or a real
// subprocess.

import (
	"io"
	"net"
	"os/exec"

	"github.com/varlink/go/varlink/internal/ctxio"
)

// VerifNewConnection wraps an established stream as NewConnection does after dialling.
func VerifNewConnection(c net.Conn) *Connection {
	return &Connection{conn: ctxio.NewConn(c)}
}

// VerifNewBridgeConnection builds what NewBridgeWithStderr builds, with the
// subprocess' stdout/stdin pipe ends supplied by the caller.
func VerifNewBridgeConnection(r io.ReadCloser, w io.WriteCloser) *Connection {
	return &Connection{conn: ctxio.NewConn(PipeCon{cmd: &exec.Cmd{}, reader: r, writer: w})}
}

// VerifNewResolver builds a Resolver over an existing connection.
func VerifNewResolver(address string, c *Connection) *Resolver {
	return &Resolver{address: address, conn: c}
}
