package varlink

// Added by /verif's build pipeline to a scratch copy of the repository in
// place of listen_1.10.go / listen_1.11.go. With VerifListen == nil it does
// exactly what listen_1.11.go does.

import (
	"context"
	"net"
)

// VerifListen, when set, is the simulator's socket namespace.
var VerifListen func(ctx context.Context, network, address string) (net.Listener, error)

func listen(ctx context.Context, network, address string) (net.Listener, error) {
	if VerifListen != nil {
		return VerifListen(ctx, network, address)
	}
	var lc net.ListenConfig
	return lc.Listen(ctx, network, address)
}
