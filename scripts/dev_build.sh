#!/bin/bash
# dev helper: build an instrumented scratch copy + harness test binary
set -e
export GOFLAGS=-mod=mod GOPROXY=off GOSUMDB=off GOTOOLCHAIN=local
S=${1:-/tmp/verif-dev}
rm -rf $S; mkdir -p $S/repo
cp /repo/go.mod /repo/go.sum $S/repo/
rsync -a --exclude '*_test.go' /repo/varlink $S/repo/
rm -f $S/repo/varlink/listen_1.10.go $S/repo/varlink/listen_1.11.go
mkdir -p $S/repo/varlink/simhook
cp /verif/overlay/simhook/simhook.go $S/repo/varlink/simhook/
cp /verif/overlay/varlink/*.go $S/repo/varlink/
/verif/bin/verif-instrument $S/repo $S/repo/varlink $S/repo/varlink/internal/ctxio
rsync -a /verif/harness $S/
cp /repo/go.sum $S/harness/go.sum
cd $S/harness
go1.26.8 test -c -trimpath -o $S/sim.test . 
