#!/bin/bash
# development aid: run every claimed check for several seeds on the current tree
# usage: scripts/sweep.sh <tier> <seed>...   (needs /verif/bin built: ./setup.sh)
tier=$1; shift
cd /verif
[ -x bin/verif ] || ./setup.sh >/dev/null 2>&1
export VERIF_REPLAYS=${VERIF_REPLAYS:-/tmp/sweep-replays}
for seed in "$@"; do
  for p in $(python3 -c "import json;print(' '.join(c['property_id'] for c in json.load(open('/verif/MANIFEST.json'))['checks']))"); do
    out=$(VERIF_SEED=$seed /verif/bin/verif check $p --tier $tier --no-evidence 2>&1); rc=$?
    echo "seed=$seed $p exit=$rc $(echo "$out" | tail -1 | cut -c1-200)"
    if [ $rc -ne 0 ]; then echo "$out" | grep -v "^WARNING" | head -20 | cut -c1-600; fi
  done
done
