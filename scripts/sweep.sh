#!/bin/bash
# development aid: run every claimed check for several seeds on the current /repo tree,
# from the directory this script lives in (a snapshot under `vp run`, or /verif)
# usage: [PROPS="C01 C10"] scripts/sweep.sh <tier> <seed>...
tier=$1; shift
here=$(cd "$(dirname "$0")/.." && pwd)
cd "$here"
export GOFLAGS=-mod=mod GOPROXY=off GOSUMDB=off GOTOOLCHAIN=local
mkdir -p bin && go1.26.8 build -o bin/ ./cmd/... || exit 2
export VERIF_DIR="$here"
for seed in "$@"; do
  for p in ${PROPS:-$(python3 -c "import json;print(' '.join(c['property_id'] for c in json.load(open('$here/MANIFEST.json'))['checks']))")}; do
    out=$(VERIF_SEED=$seed ./bin/verif check $p --tier $tier --no-evidence 2>&1); rc=$?
    echo "seed=$seed $p exit=$rc $(echo "$out" | tail -1 | cut -c1-200)"
    if [ $rc -ne 0 ]; then echo "$out" | grep -v "^WARNING" | head -20 | cut -c1-600; fi
  done
done
