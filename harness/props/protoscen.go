package props

import (
	"bytes"
	"context"
	"encoding/json"
	"fmt"
	"sort"
	"strconv"
	"strings"
	"time"

	"github.com/varlink/go/varlink"

	"verifharness/sim"
)

// ProtoScenario is the common shape of the service-side protocol properties
// (C01, C02 raw leg, C04, C10): a real service on the simulated transport,
// scripted handlers, raw client connections.
type ProtoScenario struct {
	Prop    string         `json:"prop"`
	Config  sim.Config     `json:"config"`
	Service ServiceSpec    `json:"service"`
	Scripts map[int]Script `json:"scripts"`
	Clients []ClientSpec   `json:"clients"`
	// Faulted: the run contains aborts / truncations; equality with the model
	// is relaxed to "observed is a prefix of the model's, nothing wrong".
	Faulted bool `json:"faulted"`
	// Shutdown: after everything went quiet a controller calls Shutdown and the serving call must return.
	Shutdown bool `json:"shutdown"`
	// ShutdownAfterEnters > 0: Shutdown is (also) called as soon as every client's
	// connection has been accepted and that many handler invocations have begun.
	ShutdownAfterEnters int `json:"shutdown_after_enters,omitempty"`
	// Probe: an additional well-behaved connection issuing GetInfo calls throughout.
	Probe int `json:"probe,omitempty"`

	svc *varlink.Service
}

func (s *ProtoScenario) Cfg() sim.Config { return s.Config }

func (s *ProtoScenario) Setup(k *sim.Kernel) {
	svc, regErrs := buildService(s.Service, s.Scripts)
	reportRegErrs(k, s.Service, regErrs)
	s.svc = svc
	k.Spawn("serve", serveTask(svc, s.Service, context.Background()))
	for i, c := range s.Clients {
		k.Spawn(sf("client%d", i), rawClientTask(i, s.Service, c))
	}
	if s.ShutdownAfterEnters > 0 {
		network, addr := splitAddr(s.Service.Address)
		k.Spawn("early-shutdown", func() {
			awaitTriggers(sf("accepted:%d,ev:h.enter:%d", len(s.Clients), s.ShutdownAfterEnters), network, addr)
			sim.Rec("shutdown.call", "early")
			svc.Shutdown()
		})
	}
	if s.Shutdown {
		k.Spawn("controller", func() {
			sim.Await(sim.Cond{Kind: sim.CondQuiescent})
			sim.Rec("shutdown.call", "")
			err := svc.Shutdown()
			sim.Rec("shutdown.return", describeErr(err))
		})
	}
}

func (s *ProtoScenario) PostDrain(k *sim.Kernel, left []string) []sim.Violation { return nil }

func (s *ProtoScenario) NonTrivial(k *sim.Kernel) bool {
	// at least one handler ran or one reply frame was written
	for _, c := range k.Conns {
		if len(c.Server.Tap) > 0 {
			return true
		}
	}
	for _, e := range k.Log {
		if e.Kind == "h.enter" {
			return true
		}
	}
	return false
}

// clientConns maps client index -> connection, from the log.
func clientConns(k *sim.Kernel) map[int]*sim.Conn {
	out := map[int]*sim.Conn{}
	for _, e := range k.Log {
		if e.Kind == "client.dial" {
			var d struct{ Client, Conn int }
			json.Unmarshal([]byte(e.Data), &d)
			out[d.Client] = k.Conns[d.Conn]
		}
	}
	return out
}

type hEnter struct {
	Iface   string `json:"iface"`
	Method  string `json:"method"`
	Cid     int    `json:"cid"`
	More    bool   `json:"more"`
	Oneway  bool   `json:"oneway"`
	Upgrade bool   `json:"upgrade"`
	Params  string `json:"params"`
}

type hAct struct {
	Cid int    `json:"cid"`
	I   int    `json:"i"`
	Op  string `json:"op"`
	Err string `json:"err"`
}

func vio(clause, key, format string, a ...interface{}) sim.Violation {
	return sim.Violation{Clause: clause, Key: key, Detail: fmt.Sprintf(format, a...)}
}

// Check is the per-connection oracle shared by C01/C04/C10.
func (s *ProtoScenario) Check(k *sim.Kernel) []sim.Violation {
	var out []sim.Violation
	conns := clientConns(k)
	// handler events are attributed to connections through task identity:
	// the handler task (and its ctxio helper children) are the users of the
	// connection's server end
	perClient := map[int][]hev{}
	for _, e := range k.Log {
		if !strings.HasPrefix(e.Kind, "h.") {
			continue
		}
		owner := -1
		for ci := range s.Clients {
			if c := conns[ci]; c != nil && c.Server.UsedBy(e.Task) {
				owner = ci
				break
			}
		}
		perClient[owner] = append(perClient[owner], hev{e.Seq, e.Kind, e.Data})
	}
	for ci, cs := range s.Clients {
		faulted := cs.End != "close" || cs.NoRead || cs.HoldUs > 0
		out = append(out, checkClientConn(sf("client%d", ci), s.Service, s.Scripts, cs, conns[ci], perClient[ci], faulted, s.Faulted, false)...)
	}
	// ---- independence: while a handler of one connection is blocked (script
	// action "hold", released at the first quiet point), calls on the other
	// connections are dispatched; none of them may have had to wait for the release
	var release uint64
	holder := -1
	for _, e := range k.Log {
		if e.Kind == "h.hold.released" && release == 0 {
			release = e.Seq
			for ci := range s.Clients {
				if c := conns[ci]; c != nil && c.Server.UsedBy(e.Task) {
					holder = ci
				}
			}
		}
	}
	if release != 0 && holder >= 0 {
		for ci, cs := range s.Clients {
			if ci == holder || cs.End != "close" || cs.NoRead || cs.StopAfter > 0 {
				continue
			}
			for _, e := range perClient[ci] {
				if e.kind == "h.enter" && e.seq > release {
					out = append(out, vio("independence", "blocked-by-other-connection", "client%d: a call was dispatched only at seq %d, after the handler of client%d's connection (blocked since before, released at seq %d when everything else had gone quiet) had returned: traffic on one connection held up another", ci, e.seq, holder, release))
					break
				}
			}
		}
	}
	// ---- a streaming handler is told when its peer is gone: once the client's end
	// has been closed or reset, at most one further Reply reports success
	for ci := range s.Clients {
		conn := conns[ci]
		if conn == nil || !conn.Client.Closed {
			continue
		}
		late := 0
		for _, e := range perClient[ci] {
			if e.kind == "h.stream" && e.seq > conn.Client.CloseSeq && strings.Contains(e.data, `"err":"nil"`) {
				late++
			}
		}
		if late > 1 {
			out = append(out, vio("resource-release", "handler-not-told-peer-is-gone", "client%d closed its end at seq %d; afterwards %d more continues-replies of the streaming handler on that connection reported success", ci, conn.Client.CloseSeq, late))
		}
	}
	// handler events that belong to no scripted client (the probe connection has none)
	for _, e := range perClient[-1] {
		if e.kind == "h.enter" {
			var h hEnter
			json.Unmarshal([]byte(e.data), &h)
			out = append(out, vio("dispatch", "phantom-dispatch", "handler invoked (cid %d, %s|%s) on no known connection", h.Cid, h.Iface, h.Method))
		}
	}
	out = append(out, s.checkRelease(k, conns)...)
	out = append(out, s.checkServe(k)...)
	return out
}

func replyKey(exp, obs ReplyModel) string {
	switch {
	case exp.Error != obs.Error:
		return sf("error-name exp=%q", classifyName(exp.Error))
	case exp.Continues != obs.Continues:
		return "continues-flag"
	default:
		return "parameters"
	}
}

func classifyName(n string) string {
	if strings.HasPrefix(n, "org.varlink.service.") {
		return n
	}
	if n == "" {
		return ""
	}
	return "user-error"
}

func contains(l []int, v int) bool {
	for _, x := range l {
		if x == v {
			return true
		}
	}
	return false
}

// checkRelease: once a connection's peer is gone its resources are released —
// the server end is closed and no handler / helper task of it remains.
func (s *ProtoScenario) checkRelease(k *sim.Kernel, conns map[int]*sim.Conn) []sim.Violation {
	var out []sim.Violation
	if k.StopReason() != "quiescent" {
		return nil
	}
	for _, c := range k.Conns {
		if c.AcceptSeq == 0 || !c.Client.Closed {
			continue
		}
		if !c.Server.Closed {
			out = append(out, vio("resource-release", "server-end-open", "connection c%d: the client end is gone (closed at seq %d, aborted=%v) but the server end is still open at quiescence", c.ID, c.Client.CloseSeq, c.Client.Aborted))
		}
		for _, ti := range k.LiveTasks() {
			if !ti.Root && c.Server.UsedBy(ti.ID) {
				out = append(out, vio("resource-release", "task-left-behind "+ti.Label, "connection c%d is gone but task %s (%s) is still alive at quiescence, blocked: %q after %s", c.ID, ti.ID, ti.Label, ti.Blocked, ti.Site))
			}
		}
	}
	return out
}

// checkServe judges the serving call's return when the scenario shuts the service down.
func (s *ProtoScenario) checkServe(k *sim.Kernel) []sim.Violation {
	var out []sim.Violation
	returned := ""
	for _, e := range k.Log {
		if e.Kind == "serve.return" {
			returned = e.Data
		}
	}
	if s.Shutdown {
		if returned == "" {
			out = append(out, vio("serve-return", "no-return-after-shutdown", "Shutdown was called after all peers went quiet but the serving call has not returned at quiescence; stuck: %v", k.Stuck))
		}
	} else if s.Service.TimeoutNs > 0 && returned == "" && k.StopReason() == "quiescent" {
		// every peer is gone (each client ends its connection at the first quiet
		// point at the latest): the connections' resources must have been released,
		// so the idle timeout has to end serving
		out = append(out, vio("serve-return", "no-timeout-after-peers-gone", "the service runs with an idle timeout of %v and every client is gone, but the serving call has not returned at the end of the run (simulated time %v); stuck: %v", time.Duration(s.Service.TimeoutNs), k.Elapsed(), k.Stuck))
	} else if s.Service.TimeoutNs == 0 && returned != "" && !s.Faulted {
		out = append(out, vio("serve-return", "unexpected-return", "serving call returned %q without Shutdown or timeout", returned))
	}
	return out
}

// ---------------------------------------------------------------------------
// shrinking

func (s *ProtoScenario) clone() *ProtoScenario {
	b, _ := json.Marshal(s)
	var c ProtoScenario
	json.Unmarshal(b, &c)
	return &c
}

func (s *ProtoScenario) Shrinks() []Scenario {
	var out []Scenario
	add := func(c *ProtoScenario) { out = append(out, c) }
	// drop a client
	for i := range s.Clients {
		if len(s.Clients) > 1 {
			c := s.clone()
			c.Clients = append(c.Clients[:i], c.Clients[i+1:]...)
			add(c)
		}
	}
	// drop a frame
	for i := range s.Clients {
		for j := range s.Clients[i].Frames {
			if len(s.Clients[i].Frames) > 1 {
				c := s.clone()
				c.Clients[i].Frames = append(c.Clients[i].Frames[:j], c.Clients[i].Frames[j+1:]...)
				c.Clients[i].Cuts = nil
				add(c)
			}
		}
	}
	// drop script actions
	cids := make([]int, 0, len(s.Scripts))
	for cid := range s.Scripts {
		cids = append(cids, cid)
	}
	sort.Ints(cids)
	for _, cid := range cids {
		sc := s.Scripts[cid]
		for j := range sc.Actions {
			if len(sc.Actions) > 1 {
				c := s.clone()
				a := c.Scripts[cid].Actions
				c.Scripts[cid] = Script{Actions: append(a[:j:j], a[j+1:]...)}
				add(c)
			}
		}
	}
	// simpler configuration
	cfgs := []func(*sim.Config) bool{
		func(c *sim.Config) bool { ok := c.YieldDensity != 0; c.YieldDensity = 0; return ok },
		func(c *sim.Config) bool { ok := c.Segmentation != 0; c.Segmentation = 0; return ok },
		func(c *sim.Config) bool { ok := c.ShortReads != 0; c.ShortReads = 0; return ok },
		func(c *sim.Config) bool { ok := c.MaxLatencyUs != 0; c.MaxLatencyUs = 0; return ok },
		func(c *sim.Config) bool { ok := c.PipeCap != 0; c.PipeCap = 0; return ok },
		func(c *sim.Config) bool {
			ok := c.Sched != 1 || c.StickPct != 100
			c.Sched = 1
			c.StickPct = 100
			return ok
		},
	}
	for _, f := range cfgs {
		c := s.clone()
		if f(&c.Config) {
			add(c)
		}
	}
	for i := range s.Clients {
		if len(s.Clients[i].Cuts) > 0 || len(s.Clients[i].PauseUs) > 0 {
			c := s.clone()
			c.Clients[i].Cuts, c.Clients[i].PauseUs = nil, nil
			add(c)
		}
	}
	if s.Probe > 0 {
		c := s.clone()
		c.Probe = 0
		add(c)
	}
	return out
}

func decodeProto(raw json.RawMessage) (Scenario, error) {
	var s ProtoScenario
	if err := json.Unmarshal(raw, &s); err != nil {
		return nil, err
	}
	return &s, nil
}

// ---------------------------------------------------------------------------
// generation helpers shared by the protocol properties

var ifacePool = []string{"a.b", "a.b.c", "a", "org.varlink", "org.varlink.servicex", "org.example.more", "x.y-z.w", "über.straße", "io.systemd", "a.b.C"}

func genConfig(g *Gen) sim.Config {
	return sim.Config{
		Sched:        g.IntN(3),
		StickPct:     []int{50, 80, 95, 99}[g.IntN(4)],
		YieldDensity: g.IntN(4),
		MaxLatencyUs: []int{0, 0, 10, 1000, 100000}[g.IntN(5)],
		Segmentation: g.IntN(3),
		ShortReads:   g.IntN(3),
		PipeCap:      []int{0, 0, 0, 1, 7, 64, 1024, 4096, 5000}[g.IntN(9)],
	}
}

func genService(g *Gen, nIfaces int, addr string) ServiceSpec {
	svc := ServiceSpec{
		Vendor: g.String(10), Product: g.String(10), Version: g.String(5), URL: g.String(20),
		Address: addr, UseBind: g.Pct(50),
	}
	perm := g.Perm(len(ifacePool))
	for i := 0; i < nIfaces; i++ {
		svc.Ifaces = append(svc.Ifaces, IfaceSpec{Name: ifacePool[perm[i]], Desc: "interface " + ifacePool[perm[i]] + "\n" + g.String(30)})
	}
	return svc
}

// callFrame renders a call frame.
func callFrame(method string, params string, more, oneway, upgrade bool, g *Gen) string {
	var parts []string
	parts = append(parts, `"method":`+quote(method))
	if params != "" {
		parts = append(parts, `"parameters":`+params)
	}
	flag := func(name string, v bool) {
		if v {
			parts = append(parts, `"`+name+`":true`)
		} else if g != nil && g.Pct(10) {
			parts = append(parts, `"`+name+`":false`)
		}
	}
	flag("more", more)
	flag("oneway", oneway)
	flag("upgrade", upgrade)
	if g != nil {
		g.Shuffle(len(parts), func(i, j int) { parts[i], parts[j] = parts[j], parts[i] })
		if g.Pct(5) {
			parts = append(parts, `"x-unknown":`+g.Number())
		}
	}
	return "{" + strings.Join(parts, ",") + "}"
}

func withCid(cid int, params string) string {
	// params is a JSON object text; add the cid member
	inner := strings.TrimSpace(params)
	if inner == "" || inner == "{}" {
		return `{"cid":` + strconv.Itoa(cid) + `}`
	}
	return `{"cid":` + strconv.Itoa(cid) + `,` + inner[1:]
}

func genScript(g *Gen, sizeClass func() int) Script {
	var sc Script
	n := g.IntN(5)
	for i := 0; i < n; i++ {
		switch g.IntN(10) {
		case 0, 1, 2:
			sc.Actions = append(sc.Actions, Action{Op: "reply", Continues: true, Params: g.maybeParams(sizeClass())})
		case 3, 4:
			sc.Actions = append(sc.Actions, Action{Op: "reply", Params: g.maybeParams(sizeClass())})
		case 5:
			sc.Actions = append(sc.Actions, Action{Op: "error", Name: g.errorName(), Params: g.maybeParams(0)})
		case 6:
			sc.Actions = append(sc.Actions, Action{Op: "builtin", Name: g.Pick("MethodNotFound", "MethodNotImplemented", "InvalidParameter", "InterfaceNotFound"), Arg: g.String(12)})
		case 7:
			sc.Actions = append(sc.Actions, Action{Op: "sleep", N: g.IntN(2000)})
		case 8:
			if g.Pct(40) {
				sc.Actions = append(sc.Actions, Action{Op: "fail", Name: g.Pick("", "", "deadline", "timeout")})
				return sc
			}
		default:
			sc.Actions = append(sc.Actions, Action{Op: "reply", Continues: g.Pct(50), Params: g.maybeParams(sizeClass())})
		}
	}
	// a handler that retries a refused continues-reply without touching the flag:
	// the retry is the same attempt again
	if g.Pct(8) {
		for i := 0; i < len(sc.Actions); i++ {
			if a := sc.Actions[i]; a.Op == "reply" && a.Continues {
				retry := a
				retry.KeepFlag = true
				sc.Actions = append(sc.Actions[:i+1], append([]Action{retry}, sc.Actions[i+1:]...)...)
				break
			}
		}
	}
	// a reply under a generous deadline, and long pauses: a deadline armed for
	// one reply must not cut a later one
	if g.Pct(12) {
		for i := range sc.Actions {
			if sc.Actions[i].Op != "sleep" && sc.Actions[i].Op != "fail" && g.Pct(50) {
				sc.Actions[i].DeadlineUs = 3600e6
			}
		}
	}
	if g.Pct(6) {
		sc.Actions = append([]Action{{Op: "sleep", N: 7200e6}}, sc.Actions...)
	}
	// usually finish with a final reply
	switch g.IntN(6) {
	case 0:
	case 1:
		sc.Actions = append(sc.Actions, Action{Op: "error", Name: g.errorName(), Params: g.maybeParams(0)})
	default:
		sc.Actions = append(sc.Actions, Action{Op: "reply", Params: g.maybeParams(sizeClass())})
	}
	return sc
}

// callParams: what maybeParams gives, or (one time in eight) a parameters
// member of the wrong type - what a call carries as parameters never changes
// where it is routed to.
func (g *Gen) callParams() string {
	if g.IntN(8) == 0 {
		return g.Pick(`{"interface":42}`, `[]`, `"x"`, `7`, `{"interface":null}`, `[{"interface":"a.b"}]`, `true`)
	}
	return g.maybeParams(0)
}

func (g *Gen) maybeParams(sizeClass int) string {
	if g.Pct(15) {
		return ""
	}
	return g.ParamsObject(sizeClass)
}

var errorNames = []string{"a.b.E", "org.example.more.Failed", "E", "", ".", ".E", "a.", "a..E", "org.varlink.service.X",
	"org.varlink.service.InvalidParameter", "org.varlink.service", "org.varlink.servicex.E", "org.varlink.service.X.Y",
	"org.varlink.Service.X", "über.straße.Fehler", "a.b.c.d.e.f.G", "org.varlink.service.", "x.\u0000",
	// an interface's own errors may be named like the standard ones
	"a.b.InvalidParameter", "org.example.more.MethodNotFound", "x.InterfaceNotFound", "a.b.c.MethodNotImplemented", "InvalidParameter"}

func (g *Gen) errorName() string {
	if g.Pct(20) {
		return g.String(6) + "." + g.String(4)
	}
	return errorNames[g.IntN(len(errorNames))]
}

func genCuts(g *Gen, total int) ([]int, []int) {
	var cuts, pauses []int
	switch g.IntN(5) {
	case 0:
		return nil, nil
	case 1: // byte at a time for a while
		n := g.IntN(60)
		for i := 0; i < n; i++ {
			cuts = append(cuts, 1)
		}
	case 2:
		n := g.IntN(8)
		for i := 0; i < n; i++ {
			cuts = append(cuts, 1+g.IntN(total+1))
		}
	default:
		n := g.IntN(6)
		for i := 0; i < n; i++ {
			cuts = append(cuts, 1+g.IntN(40))
		}
	}
	for range cuts {
		if g.Pct(30) {
			pauses = append(pauses, g.IntN(5000))
		} else {
			pauses = append(pauses, 0)
		}
	}
	return cuts, pauses
}

// hev is one handler event attributed to a connection.
type hev struct {
	seq  uint64
	kind string
	data string
}

// checkClientConn judges one connection against the model of its script.
// faulted: the connection may have been cut short (observed is a prefix of
// the model's); mayNotConnect: a missing connection is not an error.
func checkClientConn(key string, svc ServiceSpec, scripts map[int]Script, cs ClientSpec, conn *sim.Conn, evs []hev, faulted, mayNotConnect, serverMayHangUp bool) []sim.Violation {
	var out []sim.Violation
	cm := ModelConn(svc, cs.Frames, cs.StopAfter, scripts)
	if conn == nil {
		if !mayNotConnect {
			out = append(out, vio("harness", key, "client never connected"))
		}
		return out
	}
	{
		// --- reply stream
		obs, rest, err := parseReplies(conn.Server.Tap)
		if err != nil && serverMayHangUp {
			// a reply cut short by the cancellation of the connection's context may be
			// followed by further attempts: the stream is not made of whole frames
			return out
		}
		if err != nil {
			out = append(out, vio("framing", "reply-not-an-object", "%s: %v", key, err))
			return out
		}
		if len(rest) != 0 && !faulted && !cm.RawMode {
			out = append(out, vio("framing", "reply-without-nul", "%s: %d trailing bytes without NUL", key, len(rest)))
		}
		exp := cm.Replies
		limit := len(exp)
		if cm.AmbiguousFrom >= 0 {
			limit = cm.AmbiguousFrom
		}
		if serverMayHangUp {
			// The connection's context may be cancelled at any time: from then on every
			// reply attempt fails towards the handler while its bytes may or may not
			// have reached the wire. What is observed must be a subsequence of what the
			// handlers issued, in order (nothing foreign, nothing twice, nothing reordered).
			j := 0
			for i := 0; i < len(obs); i++ {
				for j < limit && !sameReply(obs[i], exp[j]) {
					j++
				}
				if j >= limit {
					if cm.AmbiguousFrom < 0 && !cm.RawMode {
						out = append(out, vio("reply-stream", "reply-not-issued", "%s reply %d: observed %v is not among the replies the handlers issued after the ones already matched", key, i, obs[i]))
					}
					break
				}
				j++
			}
			obs, exp, limit = nil, nil, 0
		}
		for i := 0; i < len(obs) && i < limit; i++ {
			if !sameReply(obs[i], exp[i]) {
				out = append(out, vio("reply-stream", replyKey(exp[i], obs[i]), "%s reply %d: expected %v, observed %v", key, i, exp[i], obs[i]))
				break
			}
		}
		if cm.AmbiguousFrom < 0 && !cm.RawMode && !serverMayHangUp {
			if len(obs) > len(exp) {
				out = append(out, vio("reply-stream", "extra-reply", "%s: %d replies expected, %d observed; first extra %v", key, len(exp), len(obs), obs[len(exp)]))
			} else if len(obs) < len(exp) && !faulted {
				out = append(out, vio("reply-stream", "missing-reply", "%s: %d replies expected, %d observed; first missing %v", key, len(exp), len(obs), exp[len(obs)]))
			}
		}
		// what the client read is what the server wrote (transport sanity, fault-free only)
		if !faulted && !bytes.Equal(conn.Client.ReadLog, conn.Server.Tap) {
			out = append(out, vio("harness", "transport", "%s: client read %d bytes, server wrote %d", key, len(conn.Client.ReadLog), len(conn.Server.Tap)))
		}
		// --- dispatch log and handler intervals
		var enters []hEnter
		open := -1
		for _, e := range evs {
			switch e.kind {
			case "h.enter":
				var h hEnter
				json.Unmarshal([]byte(e.data), &h)
				if open != -1 {
					out = append(out, vio("handler-overlap", "enter-before-leave", "%s: call cid=%d dispatched at seq %d while cid=%d has not returned", key, h.Cid, e.seq, open))
				}
				open = h.Cid
				enters = append(enters, h)
			case "h.leave":
				open = -1
			}
		}
		if cm.AmbiguousFrom < 0 {
			for i, h := range enters {
				if i >= len(cm.Dispatch) {
					out = append(out, vio("dispatch", "extra-dispatch", "%s: unexpected dispatch #%d %s.%s cid=%d", key, i, h.Iface, h.Method, h.Cid))
					break
				}
				d := cm.Dispatch[i]
				if d.Cid != h.Cid || d.Iface != h.Iface || d.Method != h.Method {
					out = append(out, vio("dispatch", "wrong-dispatch", "%s: dispatch #%d expected %s|%s cid=%d, observed %s|%s cid=%d", key, i, d.Iface, d.Method, d.Cid, h.Iface, h.Method, h.Cid))
					break
				}
			}
			if len(enters) < len(cm.Dispatch) && !faulted {
				d := cm.Dispatch[len(enters)]
				out = append(out, vio("dispatch", "missing-dispatch", "%s: dispatch #%d %s|%s cid=%d never happened", key, len(enters), d.Iface, d.Method, d.Cid))
			}
		}
		// flags and parameters as seen by the handler
		for i, h := range enters {
			if i >= len(cm.Dispatch) || cm.AmbiguousFrom >= 0 {
				break
			}
			f := cs.Frames[cm.Dispatch[i].Frame]
			pc := parseCall(f.Text)
			if !pc.ok || pc.ambiguous {
				return out
			}
			if pc.more != h.More || pc.oneway != h.Oneway || pc.upgrade != h.Upgrade {
				out = append(out, vio("flags", "handler-flags", "%s cid=%d: sent more=%v oneway=%v upgrade=%v, handler saw %v %v %v", key, h.Cid, pc.more, pc.oneway, pc.upgrade, h.More, h.Oneway, h.Upgrade))
			}
			if pc.hasParams {
				want, _ := canon(pc.params)
				got, err := canon([]byte(h.Params))
				if err != nil || want != got {
					out = append(out, vio("params", "handler-params", "%s cid=%d: sent %s, handler saw %s", key, h.Cid, abbreviate(want, 200), abbreviate(h.Params, 200)))
				}
			}
		}
		// reply attempts: refused ones returned an error, accepted ones did not
		di := -1 // the dispatch the attempt belongs to (two calls may carry the same cid)
		for _, e := range evs {
			if e.kind == "h.enter" {
				di++
			}
			if e.kind != "h.act" {
				continue
			}
			var a hAct
			json.Unmarshal([]byte(e.data), &a)
			if a.Op == "rawwrite" {
				continue
			}
			if contains(cm.Refused[di], a.I) && a.Err != "err" {
				out = append(out, vio("refusal", "refused-attempt-accepted", "%s cid=%d action %d (%s): must be refused, handler got nil", key, a.Cid, a.I, a.Op))
			}
			if contains(cm.Accepted[di], a.I) && a.Err != "nil" && !faulted {
				out = append(out, vio("refusal", "legal-attempt-refused", "%s cid=%d action %d (%s): must be accepted, handler got an error", key, a.Cid, a.I, a.Op))
			}
		}
		// --- end of connection
		if cm.ServerCloses && !cm.RawMode && cm.AmbiguousFrom < 0 {
			if !conn.Server.Closed {
				out = append(out, vio("conn-end", "server-did-not-close", "%s: server must end the connection (bad frame %d / failed cid %d) but its end is still open", key, cm.BadFrame, cm.EndsAfterCid))
			}
		}
		if !cm.ServerCloses && !cm.RawMode && cm.AmbiguousFrom < 0 && !cm.Incomplete && !serverMayHangUp {
			// the server must not hang up first
			if conn.Server.Closed && (conn.Client.CloseSeq == 0 || conn.Server.CloseSeq < conn.Client.CloseSeq) {
				out = append(out, vio("conn-end", "server-hung-up", "%s: server closed the connection (seq %d) before the client did (seq %d)", key, conn.Server.CloseSeq, conn.Client.CloseSeq))
			}
		}
	}
	return out
}
