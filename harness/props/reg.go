package props

import (
	"context"
	"encoding/json"
	"fmt"
	"sort"
	"strings"
	"sync/atomic"
	"time"

	"github.com/anishathalye/porcupine"
	"github.com/varlink/go/varlink"

	"verifharness/sim"
)

// RegScenario (C13): concurrent actors take one service through histories of
// register / duplicate register / serve / register while serving / shutdown /
// register again, while client actors ask GetInfo and
// GetInterfaceDescription through the client helpers (and the Resolver
// helpers against a test org.varlink.resolver interface). The completed
// operations, stamped with the kernel's sequence numbers at invocation and
// return, are checked for linearizability against a small sequential model
// of the service with porcupine.
type RegScenario struct {
	Prop    string      `json:"prop"`
	Config  sim.Config  `json:"config"`
	Service ServiceSpec `json:"service"`
	// Actors are tasks, each running its operations in sequence.
	Actors [][]RegOp `json:"actors"`
	// Resolver: what the test org.varlink.resolver interface answers (nil = not registered).
	Resolver *ResolverSpec `json:"resolver,omitempty"`
	// Other: a second, independent service in the same process (its own identity
	// and interfaces, served on its own address for the whole run): what one
	// service reports never depends on what was registered with another.
	Other *ServiceSpec `json:"other,omitempty"`
}

// ResolverSpec scripts the org.varlink.resolver test interface.
type ResolverSpec struct {
	Vendor     string            `json:"vendor"`
	Product    string            `json:"product"`
	Version    string            `json:"version"`
	URL        string            `json:"url"`
	Interfaces []string          `json:"interfaces"`
	Addresses  map[string]string `json:"addresses"`
}

// RegOp is one step of an actor.
type RegOp struct {
	// Op: reg | serve | shutdown | getinfo | getdesc | rgetinfo | resolve | wait
	Op   string `json:"op"`
	Name string `json:"name,omitempty"`
	Desc string `json:"desc,omitempty"`
	// UseBind (serve): Bind+DoListen instead of Listen.
	UseBind bool `json:"use_bind,omitempty"`
	// Wait: triggers awaited before the operation.
	Wait string `json:"wait,omitempty"`
	// DeadlineUs > 0: the helper call runs under a context with this (generous) deadline.
	DeadlineUs int `json:"deadline_us,omitempty"`
	// Mask (getinfo) != 0: only the destinations whose bit is set are passed
	// (vendor 1, product 2, version 4, url 8, interfaces 16); the others are nil.
	Mask int `json:"mask,omitempty"`
}

func (s *RegScenario) Cfg() sim.Config { return s.Config }

type regObs struct {
	Actor  int    `json:"actor"`
	I      int    `json:"i"`
	Op     string `json:"op"`
	Name   string `json:"name,omitempty"`
	Desc   string `json:"desc,omitempty"`
	Call   uint64 `json:"call"`
	Out    string `json:"out"`
	Failed bool   `json:"failed,omitempty"` // transport trouble: tells nothing
}

// descIface answers the registered text the first time it is asked (at
// registration) and something else ever after: what the service reports is
// the text that was registered.
type descIface struct {
	name, desc string
	asked      *int32
}

func newDescIface(name, desc string) *descIface { return &descIface{name, desc, new(int32)} }

func (d *descIface) VarlinkDispatch(ctx context.Context, c varlink.Call, m string) error {
	return c.ReplyMethodNotImplemented(ctx, m)
}
func (d *descIface) VarlinkGetName() string { return d.name }
func (d *descIface) VarlinkGetDescription() string {
	if atomic.AddInt32(d.asked, 1) > 1 {
		return d.desc + "\n# edited after registration"
	}
	return d.desc
}

type resolverIface struct{ spec *ResolverSpec }

func (d *resolverIface) VarlinkGetName() string        { return "org.varlink.resolver" }
func (d *resolverIface) VarlinkGetDescription() string { return "interface org.varlink.resolver" }
func (d *resolverIface) VarlinkDispatch(ctx context.Context, c varlink.Call, m string) error {
	switch m {
	case "GetInfo":
		return c.Reply(ctx, map[string]interface{}{"vendor": d.spec.Vendor, "product": d.spec.Product, "version": d.spec.Version,
			"url": d.spec.URL, "interfaces": d.spec.Interfaces})
	case "Resolve":
		var in struct {
			Interface string `json:"interface"`
		}
		if err := c.GetParameters(&in); err != nil {
			return c.ReplyInvalidParameter(ctx, "interface")
		}
		a, ok := d.spec.Addresses[in.Interface]
		if !ok {
			return c.ReplyError(ctx, "org.varlink.resolver.InterfaceNotFound", map[string]string{"interface": in.Interface})
		}
		return c.Reply(ctx, map[string]string{"address": a})
	}
	return c.ReplyMethodNotFound(ctx, m)
}

func (s *RegScenario) Setup(k *sim.Kernel) {
	svc, err := varlink.NewService(s.Service.Vendor, s.Service.Product, s.Service.Version, s.Service.URL)
	if err != nil {
		panic(err)
	}
	for _, is := range s.Service.Ifaces {
		// (distinct fresh names on a service that has never served)
		if err := svc.RegisterInterface(newDescIface(is.Name, is.Desc)); err != nil {
			k.Violate("registration", "fresh-name-refused", sf("RegisterInterface(%q) on a new service was refused: %v", is.Name, err))
		}
	}
	if s.Resolver != nil {
		if err := svc.RegisterInterface(&resolverIface{s.Resolver}); err != nil {
			panic(err)
		}
	}
	network, addr := splitAddr(s.Service.Address)
	ctx := context.Background()
	var other *varlink.Service
	if s.Other != nil {
		o, err := varlink.NewService(s.Other.Vendor, s.Other.Product, s.Other.Version, s.Other.URL)
		if err != nil {
			panic(err)
		}
		for _, is := range s.Other.Ifaces {
			if err := o.RegisterInterface(newDescIface(is.Name, is.Desc)); err != nil {
				k.Violate("registration", "fresh-name-refused", sf("RegisterInterface(%q) on a second new service was refused: %v", is.Name, err))
			}
		}
		other = o
		k.Spawn("other-serve", func() { o.Listen(ctx, s.Other.Address, 0) })
	}
	for ai, ops := range s.Actors {
		ai, ops := ai, ops
		k.Spawn(sf("actor%d", ai), func() {
			var conn *varlink.Connection
			connect := func() bool {
				if conn != nil {
					return true
				}
				ep, err := sim.Dial(network, addr)
				if err != nil {
					return false
				}
				conn = varlink.VerifNewConnection(ep)
				return true
			}
			for i, op := range ops {
				awaitTriggers(op.Wait, network, addr)
				ctx := ctx
				if op.DeadlineUs > 0 {
					ctx = sim.NewCtx(time.Duration(op.DeadlineUs) * time.Microsecond)
				}
				o := regObs{Actor: ai, I: i, Op: op.Op, Name: op.Name, Desc: op.Desc}
				switch op.Op {
				case "wait":
					continue
				case "close":
					if conn != nil {
						conn.Close()
						conn = nil
					}
					continue
				case "reg":
					o.Call = sim.Rec("reg.call", op.Name)
					err := svc.RegisterInterface(newDescIface(op.Name, op.Desc))
					o.Out = "ok"
					if err != nil {
						o.Out = "refused"
					}
				case "serve":
					o.Call = sim.Rec("serve.call", "")
					var err error
					if op.UseBind {
						if err = svc.Bind(ctx, s.Service.Address); err == nil {
							err = svc.DoListen(ctx, 0)
						}
					} else {
						err = svc.Listen(ctx, s.Service.Address, 0)
					}
					o.Out = describeErr(err)
				case "shutdown":
					o.Call = sim.Rec("shutdown.call", "")
					svc.Shutdown()
					sim.Rec("shutdown.return", "")
					o.Out = "done"
				case "getinfo":
					if !connect() {
						continue
					}
					// (destination variables that hold something already, as re-used ones do)
					vendor, product, version, url := "stale", "stale", "stale", "stale"
					ifaces := []string{"stale"}
					o.Call = sim.Rec("getinfo.call", "")
					// (a caller passes nil for what it does not want to know)
					ptr := func(bit uint, p *string) *string {
						if op.Mask != 0 && op.Mask&(1<<bit) == 0 {
							return nil
						}
						return p
					}
					pi := &ifaces
					if op.Mask != 0 && op.Mask&16 == 0 {
						pi = nil
					}
					err := conn.GetInfo(ctx, ptr(0, &vendor), ptr(1, &product), ptr(2, &version), ptr(3, &url), pi)
					if err != nil {
						o.Failed, o.Out = true, errClass(err)
						conn.Close()
						conn = nil
					} else {
						o.Out = mustJSON([]interface{}{vendor, product, version, url, ifaces})
						o.Name = sp(op.Mask)
					}
				case "getdesc":
					if !connect() {
						continue
					}
					o.Call = sim.Rec("getdesc.call", op.Name)
					d, err := conn.GetInterfaceDescription(ctx, op.Name)
					var r e2eReply
					describeClientErr(err, &r)
					switch {
					case err == nil:
						o.Out = "text:" + d
					case r.Err == "InvalidParameter":
						o.Out = "InvalidParameter:" + r.ErrField
					case strings.HasPrefix(r.Err, "other"):
						o.Failed, o.Out = true, r.Err
						conn.Close()
						conn = nil
					default:
						o.Out = "error:" + r.Err + ":" + r.ErrName
					}
				case "garbage":
					// a peer that sends something that is not a call: the service hangs up on
					// it, and its connection is accounted for like any other
					if ep, err := sim.Dial(network, addr); err == nil {
						ep.Write([]byte("{\"method\":5}\x00"))
						buf := make([]byte, 64)
						for {
							if _, err := ep.Read(buf); err != nil {
								break
							}
						}
						ep.Close()
					}
					o.Out = "done"
				case "call":
					// routing: a call of method X of the named interface is dispatched
					// exactly if that name is registered at that moment
					if !connect() {
						continue
					}
					o.Call = sim.Rec("call.call", op.Name)
					var out json.RawMessage
					err := conn.Call(ctx, op.Name+".X", nil, &out)
					var r e2eReply
					describeClientErr(err, &r)
					switch {
					case err == nil:
						o.Out = "replied"
					case strings.HasPrefix(r.Err, "other"):
						o.Failed, o.Out = true, r.Err
						conn.Close()
						conn = nil
					default:
						o.Out = r.Err + ":" + r.ErrField
					}
				case "ogetinfo", "ogetdesc":
					onet, oaddr := splitAddr(s.Other.Address)
					sim.Await(sim.Cond{Kind: sim.CondBound, S1: onet, S2: oaddr})
					ep, err := sim.Dial(onet, oaddr)
					if err != nil {
						continue
					}
					oc := varlink.VerifNewConnection(ep)
					if op.Op == "ogetinfo" {
						// (destination variables that hold something already, as re-used ones do)
						vendor, product, version, url := "stale", "stale", "stale", "stale"
						ifaces := []string{"stale"}
						if err := oc.GetInfo(ctx, &vendor, &product, &version, &url, &ifaces); err != nil {
							o.Failed, o.Out = true, errClass(err)
						} else {
							o.Out = mustJSON([]interface{}{vendor, product, version, url, ifaces})
						}
					} else {
						d, err := oc.GetInterfaceDescription(ctx, op.Name)
						var r e2eReply
						describeClientErr(err, &r)
						switch {
						case err == nil:
							o.Out = "text:" + d
						case r.Err == "InvalidParameter":
							o.Out = "InvalidParameter:" + r.ErrField
						default:
							o.Failed, o.Out = true, r.Err
						}
					}
					oc.Close()
				case "rgetinfo":
					if !connect() {
						continue
					}
					r := varlink.VerifNewResolver(s.Service.Address, conn)
					// (destination variables that hold something already, as re-used ones do)
					vendor, product, version, url := "stale", "stale", "stale", "stale"
					ifaces := []string{"stale"}
					o.Call = sim.Rec("rgetinfo.call", "")
					err := r.GetInfo(ctx, &vendor, &product, &version, &url, &ifaces)
					if err != nil {
						var rr e2eReply
						describeClientErr(err, &rr)
						o.Out = "error:" + rr.Err + ":" + rr.ErrName
						o.Failed = strings.HasPrefix(rr.Err, "other")
						if o.Failed {
							conn.Close()
							conn = nil
						}
					} else {
						o.Out = mustJSON([]interface{}{vendor, product, version, url, ifaces})
					}
				case "resolve":
					if !connect() {
						continue
					}
					r := varlink.VerifNewResolver(s.Service.Address, conn)
					o.Call = sim.Rec("resolve.call", op.Name)
					a, err := r.Resolve(ctx, op.Name)
					if err != nil {
						var rr e2eReply
						describeClientErr(err, &rr)
						o.Out = "error:" + rr.Err + ":" + rr.ErrName
						o.Failed = strings.HasPrefix(rr.Err, "other")
						if o.Failed {
							conn.Close()
							conn = nil
						}
					} else {
						o.Out = "address:" + a
					}
				}
				sim.Rec("reg.obs", mustJSON(o))
			}
			sim.Await(sim.Cond{Kind: sim.CondQuiescent})
			if conn != nil {
				conn.Close()
			}
		})
	}
	k.Spawn("janitor", func() {
		for i := 0; i < 6; i++ {
			sim.Await(sim.Cond{Kind: sim.CondQuiescent})
			sim.Rec("shutdown.call", "janitor")
			svc.Shutdown()
			sim.Rec("shutdown.return", "")
			if other != nil && i >= 1 {
				other.Shutdown()
			}
		}
	})
}

func (s *RegScenario) PostDrain(k *sim.Kernel, left []string) []sim.Violation { return nil }

func (s *RegScenario) NonTrivial(k *sim.Kernel) bool {
	n := 0
	for _, e := range k.Log {
		if e.Kind == "reg.obs" {
			n++
		}
	}
	return n >= 3
}

// ---- the sequential model

type regState struct {
	// names in registration order (without org.varlink.service), each followed by its description
	table string
	// phase: 0 idle, 1 serving, 2 draining (Shutdown has been issued, the serving
	// call has not returned yet: accepted connections may still be served)
	phase int
}

type regInput struct {
	op, name, desc string
}

// the table is the JSON text of [[name, description], ...] in registration order
func tableEntries(table string) [][2]string {
	var ents [][2]string
	if table != "" {
		json.Unmarshal([]byte(table), &ents)
	}
	return ents
}

func tableNames(table string) []string {
	out := []string{}
	for _, e := range tableEntries(table) {
		out = append(out, e[0])
	}
	return out
}

func tableLookup(table, name string) (string, bool) {
	for _, e := range tableEntries(table) {
		if e[0] == name {
			return e[1], true
		}
	}
	return "", false
}

func tableAdd(table, name, desc string) string {
	return mustJSON(append(tableEntries(table), [2]string{name, desc}))
}

func (s *RegScenario) regModel() porcupine.Model {
	ident := []interface{}{s.Service.Vendor, s.Service.Product, s.Service.Version, s.Service.URL}
	init := regState{}
	for _, is := range s.Service.Ifaces {
		init.table = tableAdd(init.table, is.Name, is.Desc)
	}
	if s.Resolver != nil {
		init.table = tableAdd(init.table, "org.varlink.resolver", "interface org.varlink.resolver")
	}
	return porcupine.Model{
		Init: func() interface{} { return init },
		Step: func(state, input, output interface{}) (bool, interface{}) {
			st := state.(regState)
			in := input.(regInput)
			out := output.(string)
			switch in.op {
			case "reg":
				_, dup := tableLookup(st.table, in.name)
				if in.name == "org.varlink.service" {
					dup = true
				}
				if dup || st.phase == 1 {
					return out == "refused", st
				}
				if st.phase == 2 && out == "refused" {
					// between Shutdown and the return of the serving call the statement
					// does not say whether a registration is accepted
					return true, st
				}
				if out != "ok" {
					return false, st
				}
				ns := st
				ns.table = tableAdd(st.table, in.name, in.desc)
				return true, ns
			case "start":
				if st.phase != 0 {
					return false, st
				}
				ns := st
				ns.phase = 1
				return true, ns
			case "drain":
				// the rounds of the one serving actor are sequential: Drain and Idle end the round whose Start came before
				if st.phase != 1 {
					return false, st
				}
				ns := st
				ns.phase = 2
				return true, ns
			case "idle":
				if st.phase != 2 {
					return false, st
				}
				ns := st
				ns.phase = 0
				return true, ns
			case "getinfo":
				names := append([]string{"org.varlink.service"}, tableNames(st.table)...)
				full := append(append([]interface{}{}, ident...), names)
				if mask := atoi(in.name); mask != 0 {
					// destinations that were not passed keep what they held
					for bit := 0; bit < 4; bit++ {
						if mask&(1<<uint(bit)) == 0 {
							full[bit] = "stale"
						}
					}
					if mask&16 == 0 {
						full[4] = []string{"stale"}
					}
				}
				return out == mustJSON(full), st
			case "call":
				reg := map[string]bool{}
				for _, n := range tableNames(st.table) {
					reg[n] = true
				}
				switch rt := route(in.name+".X", reg); rt.kind {
				case "badmethod":
					return out == "InvalidParameter:method", st
				case "noiface":
					return out == "InterfaceNotFound:"+rt.iface, st
				case "builtin":
					return out == "MethodNotFound:X", st
				default:
					return out == "MethodNotImplemented:X", st
				}
			case "getdesc":
				if in.name == "org.varlink.service" {
					return strings.HasPrefix(out, "text:") && len(out) > 5, st
				}
				d, ok := tableLookup(st.table, in.name)
				if !ok {
					return out == "InvalidParameter:interface", st
				}
				return out == "text:"+d, st
			}
			return false, st
		},
		DescribeOperation: func(input, output interface{}) string {
			in := input.(regInput)
			return sf("%s(%q) -> %s", in.op, in.name, abbreviate(output.(string), 60))
		},
	}
}

func (s *RegScenario) Check(k *sim.Kernel) []sim.Violation {
	var out []sim.Violation
	var obs []regObs
	obsSeq := map[int]uint64{}
	for _, e := range k.Log {
		if e.Kind == "reg.obs" {
			var o regObs
			json.Unmarshal([]byte(e.Data), &o)
			obsSeq[len(obs)] = e.Seq
			obs = append(obs, o)
		}
	}
	// ---- history for the linearizability check
	mainNet, mainAddr := splitAddr(s.Service.Address)
	var hist []porcupine.Operation
	serveTaskFirstAccept := func(call uint64) (uint64, bool) {
		// the first Accept call on a listener bound after the serving call was invoked
		for _, l := range k.Listeners {
			if l.Network == mainNet && l.Address == mainAddr && l.BindSeq >= call && len(l.AcceptLog) > 0 {
				return l.AcceptLog[0].Seq, true
			}
		}
		return 0, false
	}
	type sd struct {
		call, ret uint64
		task      string
	}
	var shutdowns []sd
	for _, e := range k.Log {
		switch e.Kind {
		case "shutdown.call":
			shutdowns = append(shutdowns, sd{call: e.Seq, ret: ^uint64(0), task: e.Task})
		case "shutdown.return":
			for i := len(shutdowns) - 1; i >= 0; i-- {
				if shutdowns[i].task == e.Task && shutdowns[i].ret == ^uint64(0) {
					shutdowns[i].ret = e.Seq
					break
				}
			}
		}
	}
	sort.Slice(shutdowns, func(i, j int) bool { return shutdowns[i].call < shutdowns[j].call })
	for i, o := range obs {
		ret := int64(obsSeq[i])
		switch o.Op {
		case "reg":
			hist = append(hist, porcupine.Operation{ClientId: o.Actor, Input: regInput{"reg", o.Name, o.Desc}, Call: int64(o.Call), Output: o.Out, Return: ret})
		case "getinfo":
			if !o.Failed {
				hist = append(hist, porcupine.Operation{ClientId: o.Actor, Input: regInput{op: "getinfo", name: o.Name}, Call: int64(o.Call), Output: o.Out, Return: ret})
			}
		case "getdesc":
			if !o.Failed {
				hist = append(hist, porcupine.Operation{ClientId: o.Actor, Input: regInput{op: "getdesc", name: o.Name}, Call: int64(o.Call), Output: o.Out, Return: ret})
			}
		case "call":
			if !o.Failed {
				hist = append(hist, porcupine.Operation{ClientId: o.Actor, Input: regInput{op: "call", name: o.Name}, Call: int64(o.Call), Output: o.Out, Return: ret})
			}
		case "serve":
			// Start: from the invocation of the serving call to its first Accept;
			// Stop: from the invocation of the first Shutdown after that to the return of the serving call.
			// (a Shutdown may come before the first Accept: the two then overlap.)
			bound := false
			for _, l := range k.Listeners {
				if l.Network == mainNet && l.Address == mainAddr && l.BindSeq >= o.Call && int64(l.BindSeq) <= ret {
					bound = true
				}
			}
			if !bound {
				continue // the bind failed: never served, the model is not told
			}
			startRet := ret // no Accept at all: serving began (if it did) some time before the return
			if acc, ok := serveTaskFirstAccept(o.Call); ok && int64(acc) < ret {
				startRet = int64(acc)
			}
			hist = append(hist, porcupine.Operation{ClientId: o.Actor, Input: regInput{op: "start"}, Call: int64(o.Call), Output: "", Return: startRet})
			// Drain: the earliest Shutdown call that was in progress at some point of
			// this round, clipped to the round; Idle: from there to the return.
			drainCall, drainRet := ret, ret
			for _, s := range shutdowns {
				if int64(s.call) < ret && s.ret > o.Call {
					drainCall = int64(s.call)
					if s.call < o.Call {
						drainCall = int64(o.Call)
					}
					if s.ret != ^uint64(0) && int64(s.ret) < ret {
						drainRet = int64(s.ret)
					}
					break
				}
			}
			hist = append(hist, porcupine.Operation{ClientId: o.Actor, Input: regInput{op: "drain"}, Call: drainCall, Output: "", Return: drainRet})
			hist = append(hist, porcupine.Operation{ClientId: o.Actor, Input: regInput{op: "idle"}, Call: drainCall, Output: "", Return: ret})
		}
	}
	// serving calls that have not returned: a Start without Stop
	for _, e := range k.Log {
		if e.Kind != "serve.call" {
			continue
		}
		returned := false
		for _, o := range obs {
			if o.Op == "serve" && o.Call == e.Seq {
				returned = true
			}
		}
		if !returned {
			// still in progress at the end of the run: its Start took effect by the
			// first Accept, or (no Accept yet) at some unknown point after the invocation
			ret := int64(k.Seq()) + 1
			if acc, ok := serveTaskFirstAccept(e.Seq); ok {
				ret = int64(acc)
			}
			hist = append(hist, porcupine.Operation{ClientId: 99, Input: regInput{op: "start"}, Call: int64(e.Seq), Output: "", Return: ret})
			for _, s := range shutdowns {
				if s.ret > e.Seq {
					// a Shutdown was issued: draining began during it, the return to idle is pending
					c := int64(s.call)
					if s.call < e.Seq {
						c = int64(e.Seq)
					}
					r := int64(k.Seq()) + 2
					if s.ret != ^uint64(0) {
						r = int64(s.ret)
					}
					hist = append(hist, porcupine.Operation{ClientId: 99, Input: regInput{op: "drain"}, Call: c, Output: "", Return: r})
					hist = append(hist, porcupine.Operation{ClientId: 99, Input: regInput{op: "idle"}, Call: c, Output: "", Return: int64(k.Seq()) + 3})
					break
				}
			}
		}
	}
	if len(hist) > 0 && len(hist) <= 40 {
		res := porcupine.CheckOperationsTimeout(s.regModel(), hist, 0)
		if res == porcupine.Illegal {
			out = append(out, vio("linearizable", "history-not-linearizable "+s.firstOddity(hist), "the %d completed operations cannot be explained by any sequential order consistent with their invocation/return order against the model {identity, names in registration order, descriptions, serving}: %s", len(hist), describeHistory(hist)))
		}
	}
	// ---- the other service answers from its own registrations only
	if s.Other != nil {
		onames := []string{"org.varlink.service"}
		for _, is := range s.Other.Ifaces {
			onames = append(onames, is.Name)
		}
		for _, o := range obs {
			if o.Failed {
				continue
			}
			switch o.Op {
			case "ogetinfo":
				want := mustJSON([]interface{}{s.Other.Vendor, s.Other.Product, s.Other.Version, s.Other.URL, onames})
				if o.Out != want {
					out = append(out, vio("isolation", "other-service-getinfo", "the second service reports %s, it was created and registered as %s", abbreviate(o.Out, 200), abbreviate(want, 200)))
				}
			case "ogetdesc":
				want := "InvalidParameter:interface"
				for _, is := range s.Other.Ifaces {
					if is.Name == o.Name {
						want = "text:" + is.Desc
					}
				}
				if o.Name == "org.varlink.service" {
					if !strings.HasPrefix(o.Out, "text:") {
						out = append(out, vio("isolation", "other-service-getdesc", "the second service has no description of org.varlink.service: %s", abbreviate(o.Out, 100)))
					}
				} else if o.Out != want {
					out = append(out, vio("isolation", "other-service-getdesc", "GetInterfaceDescription(%q) on the second service returned %s, expected %s (it must not see what was registered with the first one)", o.Name, abbreviate(o.Out, 120), abbreviate(want, 120)))
				}
			}
		}
	}
	// ---- a helper call that reached the service is answered: the only transport
	// trouble these histories contain is a connection that was dialled but not yet
	// accepted when the listener was closed (reset)
	for _, o := range obs {
		if !o.Failed {
			continue
		}
		if strings.Contains(o.Out, "reset") || strings.Contains(o.Out, "epipe") {
			continue
		}
		detail := o.Out
		if i := strings.Index(detail, "other: "); i >= 0 {
			detail = detail[i:]
		}
		out = append(out, vio("helpers", "helper-call-failed "+o.Op, "%s(%s) on an accepted connection failed with %q: no connection is aborted in this history and the service never ends one by itself", o.Op, abbreviate(o.Name, 40), detail))
		break
	}
	// ---- resolver helpers: field for field what the resolver interface answered
	for _, o := range obs {
		if o.Failed || s.Resolver == nil {
			continue
		}
		switch o.Op {
		case "rgetinfo":
			ifaces := s.Resolver.Interfaces
			want := mustJSON([]interface{}{s.Resolver.Vendor, s.Resolver.Product, s.Resolver.Version, s.Resolver.URL, ifaces})
			got := o.Out
			if len(ifaces) == 0 {
				// an empty list and an absent one say the same
				got = strings.Replace(got, ",null]", ",[]]", 1)
				want = strings.Replace(want, ",null]", ",[]]", 1)
			}
			if got != want {
				out = append(out, vio("helpers", "resolver-getinfo", "Resolver.GetInfo returned %s, the resolver interface answered %s", abbreviate(o.Out, 200), abbreviate(want, 200)))
			}
		case "resolve":
			want := ""
			if o.Name == "org.varlink.resolver" {
				want = "address:" + s.Service.Address
			} else if a, ok := s.Resolver.Addresses[o.Name]; ok {
				want = "address:" + a
			} else {
				want = "error:varlink:org.varlink.resolver.InterfaceNotFound"
			}
			if o.Out != want {
				out = append(out, vio("helpers", "resolver-resolve", "Resolver.Resolve(%q) returned %s, expected %s", o.Name, abbreviate(o.Out, 200), abbreviate(want, 200)))
			}
		}
	}
	return out
}

// firstOddity gives the violation a stable class: the kind of the first
// operation that is wrong on its own (against the set of names ever
// registered successfully), or "ordering".
func (s *RegScenario) firstOddity(hist []porcupine.Operation) string {
	okNames := map[string]string{}
	for _, is := range s.Service.Ifaces {
		okNames[is.Name] = is.Desc
	}
	for _, h := range hist {
		in := h.Input.(regInput)
		if in.op == "reg" && h.Output.(string) == "ok" {
			if _, dup := okNames[in.name]; dup {
				return "duplicate-accepted"
			}
			okNames[in.name] = in.desc
		}
	}
	for _, h := range hist {
		in := h.Input.(regInput)
		o := h.Output.(string)
		switch in.op {
		case "getdesc":
			d, known := okNames[in.name]
			if in.name == "org.varlink.service" || in.name == "org.varlink.resolver" {
				continue
			}
			if !known && o != "InvalidParameter:interface" {
				return "getdesc-unregistered"
			}
			if known && o != "text:"+d && o != "InvalidParameter:interface" {
				return "getdesc-wrong-text"
			}
		case "call":
			if _, known := okNames[in.name]; !known && in.name != "org.varlink.service" && strings.HasPrefix(o, "MethodNotImplemented") {
				return "call-dispatched-to-unregistered"
			}
		case "getinfo":
			var v []interface{}
			json.Unmarshal([]byte(o), &v)
			if len(v) == 5 && atoi(in.name) == 0 && (v[0] != s.Service.Vendor || v[1] != s.Service.Product || v[2] != s.Service.Version || v[3] != s.Service.URL) {
				return "getinfo-identity"
			}
		}
	}
	return "ordering"
}

func describeHistory(hist []porcupine.Operation) string {
	sort.Slice(hist, func(i, j int) bool { return hist[i].Call < hist[j].Call })
	var sb strings.Builder
	for _, h := range hist {
		in := h.Input.(regInput)
		fmt.Fprintf(&sb, "[%d..%d c%d %s(%s)->%s] ", h.Call, h.Return, h.ClientId, in.op, abbreviate(in.name, 20), abbreviate(h.Output.(string), 50))
		if sb.Len() > 1500 {
			sb.WriteString("...")
			break
		}
	}
	return sb.String()
}

func (s *RegScenario) clone() *RegScenario {
	b, _ := json.Marshal(s)
	var c RegScenario
	json.Unmarshal(b, &c)
	return &c
}

func (s *RegScenario) Shrinks() []Scenario {
	var out []Scenario
	for a := range s.Actors {
		for i := len(s.Actors[a]) - 1; i >= 0; i-- {
			c := s.clone()
			c.Actors[a] = append(c.Actors[a][:i], c.Actors[a][i+1:]...)
			out = append(out, c)
		}
	}
	if s.Config.YieldDensity != 0 {
		c := s.clone()
		c.Config.YieldDensity = 0
		out = append(out, c)
	}
	return out
}

func decodeReg(raw json.RawMessage) (Scenario, error) {
	var s RegScenario
	if err := json.Unmarshal(raw, &s); err != nil {
		return nil, err
	}
	return &s, nil
}

func init() {
	register(&Property{ID: "C13", Gen: genC13, Decode: decodeReg})
	raceFamilies["reg"] = decodeReg
}

var _ = time.Second

// genRegRouting (C04): registration histories whose clients mostly make calls:
// routing follows the registrations - a call is dispatched exactly if its
// interface is registered at that moment, across serving rounds.
func genRegRouting(seed uint64, tier string) *RegScenario {
	s := genC13(seed^0xC04C04, tier).(*RegScenario)
	s.Prop = "C04"
	g := NewGen(seed, 0xC04B)
	for a := 2; a < len(s.Actors); a++ {
		for i := range s.Actors[a] {
			if op := &s.Actors[a][i]; op.Op == "getdesc" && op.Name != "org.varlink.resolver" && g.Pct(70) {
				op.Op = "call"
			}
		}
	}
	return s
}

func genC13(seed uint64, tier string) Scenario {
	g := NewGen(seed, 0xC13)
	s := &RegScenario{Prop: "C13", Config: genConfig(g)}
	s.Config.YieldDensity = g.IntN(4)
	s.Service = ServiceSpec{Vendor: g.String(12), Product: g.String(12), Version: g.String(6), URL: g.String(24), Address: g.Pick("unix:@c13", "tcp:127.0.0.1:4113")}
	pool := append([]string{}, ifacePool...)
	g.Shuffle(len(pool), func(i, j int) { pool[i], pool[j] = pool[j], pool[i] })
	nInit := g.IntN(3)
	for i := 0; i < nInit; i++ {
		s.Service.Ifaces = append(s.Service.Ifaces, IfaceSpec{Name: pool[i], Desc: "interface " + pool[i] + "\n" + g.String(40)})
	}
	if g.Pct(15) && nInit > 0 {
		// a description larger than any internal buffer
		s.Service.Ifaces[0].Desc = "interface " + s.Service.Ifaces[0].Name + "\n# " + g.BigString(4000+g.IntN(6000))
	}
	fresh := pool[nInit:]
	nextFresh := 0
	newName := func() string {
		if nextFresh < len(fresh) && g.Pct(70) {
			nextFresh++
			return fresh[nextFresh-1]
		}
		// a duplicate (of an initial or an earlier one) or the built-in
		if g.Pct(15) {
			return "org.varlink.service"
		}
		return pool[g.IntN(len(pool))]
	}
	if g.Pct(40) {
		s.Resolver = &ResolverSpec{Vendor: g.String(8), Product: g.String(8), Version: g.String(4), URL: g.String(10), Addresses: map[string]string{}}
		for i, n := 0, g.IntN(4); i < n; i++ {
			s.Resolver.Interfaces = append(s.Resolver.Interfaces, pool[g.IntN(len(pool))])
			s.Resolver.Addresses[pool[g.IntN(len(pool))]] = "unix:" + g.String(10)
		}
	}
	if g.Pct(35) {
		s.Other = &ServiceSpec{Vendor: g.String(6), Product: g.String(6), Version: g.String(3), URL: g.String(8), Address: "unix:@c13-other"}
		for i, n := 0, g.IntN(3); i < n; i++ {
			nm := pool[g.IntN(len(pool))]
			dup := false
			for _, is := range s.Other.Ifaces {
				dup = dup || is.Name == nm
			}
			if !dup {
				s.Other.Ifaces = append(s.Other.Ifaces, IfaceSpec{Name: nm, Desc: "interface other " + nm + "\n" + g.String(20)})
			}
		}
	}
	// the life-cycle actor: registrations and serving rounds
	rounds := 1 + g.IntN(3)
	var life []RegOp
	for r := 0; r < rounds; r++ {
		for i, n := 0, g.IntN(3); i < n; i++ {
			life = append(life, RegOp{Op: "reg", Name: newName(), Desc: "interface x\n" + g.String(30)})
		}
		life = append(life, RegOp{Op: "serve", UseBind: g.Pct(50)})
	}
	for i, n := 0, g.IntN(2); i < n; i++ {
		life = append(life, RegOp{Op: "reg", Name: newName(), Desc: g.String(20)})
	}
	// line ends are part of the text
	if nInit > 0 && g.Pct(10) {
		s.Service.Ifaces[g.IntN(nInit)].Desc += "\r\n# dos\r\nline\n\rends\r"
	}
	// the empty text is a description too
	if g.Pct(12) {
		if nInit > 0 && g.Pct(50) {
			s.Service.Ifaces[g.IntN(nInit)].Desc = ""
		} else {
			for i := range life {
				if life[i].Op == "reg" {
					life[i].Desc = ""
					break
				}
			}
		}
	}
	s.Actors = append(s.Actors, life)
	// the admin actor: registration attempts while serving, shutdowns
	var admin []RegOp
	for r := 0; r < rounds; r++ {
		w := sf("ev:serve.call:%d", r+1)
		trig := g.Pick("acceptblocked", "bound", "accepted:+1", "", "sleep:50")
		admin = append(admin, RegOp{Op: "wait", Wait: w + "," + trig})
		for i, n := 0, g.IntN(3); i < n; i++ {
			admin = append(admin, RegOp{Op: "reg", Name: newName(), Desc: "interface y\n" + g.String(30)})
		}
		admin = append(admin, RegOp{Op: "shutdown", Wait: g.Pick("", "accepted:+1", "sleep:100", "acceptblocked", "quiescent")})
		if g.Pct(40) {
			admin = append(admin, RegOp{Op: "reg", Name: newName(), Desc: "interface z\n" + g.String(10)})
		}
	}
	s.Actors = append(s.Actors, admin)
	// client actors
	askable := func() string {
		switch g.IntN(6) {
		case 0:
			return "org.varlink.service"
		case 1:
			if g.Pct(15) {
				return "no.such." + g.BigString(4500)
			}
			return g.Pick("", "no.such", "a.b.c.d.e", "org.varlink.servic")
		case 2:
			if s.Resolver != nil {
				return "org.varlink.resolver"
			}
			return pool[g.IntN(len(pool))]
		default:
			return pool[g.IntN(len(pool))]
		}
	}
	for c, n := 0, 1+g.IntN(3); c < n; c++ {
		var ops []RegOp
		for r := 0; r < rounds; r++ {
			first := true
			for i, m := 0, 1+g.IntN(4); i < m; i++ {
				op := RegOp{}
				if first {
					op.Wait = sf("ev:serve.call:%d,bound", r+1)
					first = false
				}
				switch k := g.IntN(12); {
				case k >= 10:
					// (never the scripted resolver interface: it answers X itself)
					op.Op, op.Name = "call", askable()
					if op.Name == "org.varlink.resolver" {
						op.Name = pool[g.IntN(len(pool))]
					}
				case k < 4:
					op.Op = "getinfo"
					if g.Pct(20) {
						op.Mask = 1 + g.IntN(31)
					}
				case k < 8:
					op.Op, op.Name = "getdesc", askable()
				case k < 9 && s.Resolver != nil:
					op.Op = "rgetinfo"
				case s.Resolver != nil:
					op.Op, op.Name = "resolve", g.Pick("org.varlink.resolver", pool[g.IntN(len(pool))], "nope")
				default:
					op.Op = "getinfo"
				}
				if g.Pct(4) {
					op = RegOp{Op: "garbage", Wait: op.Wait}
				}
				if s.Other != nil && g.Pct(15) {
					op = RegOp{Op: g.Pick("ogetdesc", "ogetdesc", "ogetinfo"), Name: askable(), Wait: op.Wait}
				}
				if g.Pct(10) {
					op.DeadlineUs = 3600e6
				}
				if !first && op.Wait == "" && g.Pct(8) {
					op.Wait = "sleep:7200000000"
				}
				ops = append(ops, op)
			}
			// let the round end: an open connection keeps the serving call from returning
			if g.Pct(85) {
				ops = append(ops, RegOp{Op: "close"})
			}
		}
		s.Actors = append(s.Actors, ops)
	}
	return s
}
