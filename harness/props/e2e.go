package props

import (
	"bytes"
	"context"
	"encoding/json"
	"errors"
	"fmt"
	"os"
	"strings"
	"time"

	"github.com/varlink/go/varlink"

	"verifharness/sim"
)

// E2EScenario: real varlink.Connection clients talk to a real Service with
// scripted handlers over the simulated transport (directly, or through the
// real PipeCon on simulated stdio pipes with an in-simulation task playing the
// bridge subprocess). Used by C02 (framing on both wire directions), C03
// (parameters survive the round trip) and C12 (error replies end to end).
type E2EScenario struct {
	Prop    string         `json:"prop"`
	Config  sim.Config     `json:"config"`
	Service ServiceSpec    `json:"service"`
	Scripts map[int]Script `json:"scripts"`
	Clients []E2EClient    `json:"clients"`
	// ShutdownAfterEnters > 0: Shutdown is called as soon as every client's
	// connection has been accepted and that many handler invocations have begun,
	// i.e. in the middle of the traffic: accepted connections are served to their end.
	ShutdownAfterEnters int `json:"shutdown_after_enters,omitempty"`
}

// E2EClient is one client connection and its calls.
type E2EClient struct {
	// Transport: "stream" | "bridge"
	Transport string    `json:"transport"`
	Calls     []E2ECall `json:"calls"`
	// Window > 1: up to that many calls are outstanding (Send issued, replies not
	// yet received) at any time; replies are received in call order.
	Window int `json:"window,omitempty"`
	// StartUs: simulated pause before dialling (stream transport; the scenario
	// guarantees that the service is still serving then: another connection is open)
	StartUs int `json:"start_us,omitempty"`
	// CloseTwice: the client closes its connection as soon as it is done, and
	// then once more (a deferred Close after an explicit one); AfterClosed > 0:
	// the client dials only when that many clients have closed that way. Whatever
	// a closed connection gave back must not be shared by the connections made later.
	CloseTwice  bool `json:"close_twice,omitempty"`
	AfterClosed int  `json:"after_closed,omitempty"`
}

// E2ECall is one method call made through the client API.
type E2ECall struct {
	Cid    int    `json:"cid"`
	Method string `json:"method"`
	// Params is the JSON text passed as parameters ("" = nil).
	Params string `json:"params,omitempty"`
	Flags  uint64 `json:"flags,omitempty"`
	// Via: "send" (Send + receive) | "call" (Connection.Call, flags ignored)
	Via string `json:"via"`
	// DeadlineUs > 0: the call runs under a context with this (generous) deadline;
	// PauseUs: simulated pause before the call. A deadline armed for one call must
	// not cut a later one.
	DeadlineUs int `json:"deadline_us,omitempty"`
	PauseUs    int `json:"pause_us,omitempty"`
	// RetryDeadlineUs > 0 (send only): the first receive runs under a context whose
	// deadline expires while nothing of the reply has arrived yet (the handler's
	// script starts with a longer sleep); the receive is then repeated with a live
	// context and must return the reply intact.
	RetryDeadlineUs int `json:"retry_deadline_us,omitempty"`
	// SendCtxEnds (send only): Send runs under a context of its own that is
	// cancelled as soon as Send has returned; the receives run under theirs.
	SendCtxEnds bool `json:"send_ctx_ends,omitempty"`
	// TypedOut: the client passes a typed struct { Field int `json:"field"` } for
	// the reply parameters, as generated clients do (only for calls whose script
	// answers with an error carrying "field": a string).
	TypedOut bool `json:"typed_out,omitempty"`
	// FailFirst (send only): the call is first attempted under a context whose
	// deadline has passed already; Send fails without writing anything, and the
	// call is then made properly.
	FailFirst bool `json:"fail_first,omitempty"`
}

func (s *E2EScenario) Cfg() sim.Config { return s.Config }

type e2eReply struct {
	Client int    `json:"client"`
	Call   int    `json:"call"`
	J      int    `json:"j"`
	Flags  uint64 `json:"flags"`
	// Out is the JSON text the receive function stored into a json.RawMessage ("" = untouched).
	Out string `json:"out"`
	// Err: "" | "varlink" (a *varlink.Error) | "InterfaceNotFound" ... | "other: ..."
	Err       string `json:"err"`
	ErrName   string `json:"err_name,omitempty"`
	ErrParams string `json:"err_params,omitempty"`
	ErrField  string `json:"err_field,omitempty"`
}

func describeClientErr(err error, r *e2eReply) {
	if err == nil {
		return
	}
	var ve *varlink.Error
	var e1 *varlink.InterfaceNotFound
	var e2 *varlink.MethodNotFound
	var e3 *varlink.MethodNotImplemented
	var e4 *varlink.InvalidParameter
	// the typed errors and *varlink.Error are returned as such, not wrapped
	switch err.(type) {
	case *varlink.InterfaceNotFound, *varlink.MethodNotFound, *varlink.MethodNotImplemented, *varlink.InvalidParameter, *varlink.Error:
	default:
		if errors.As(err, &ve) || errors.As(err, &e1) || errors.As(err, &e2) || errors.As(err, &e3) || errors.As(err, &e4) {
			r.Err = "other: wrapped varlink error: " + err.Error()
			return
		}
	}
	switch {
	case errors.As(err, &e1):
		r.Err, r.ErrField = "InterfaceNotFound", e1.Interface
	case errors.As(err, &e2):
		r.Err, r.ErrField = "MethodNotFound", e2.Method
	case errors.As(err, &e3):
		r.Err, r.ErrField = "MethodNotImplemented", e3.Method
	case errors.As(err, &e4):
		r.Err, r.ErrField = "InvalidParameter", e4.Parameter
	case errors.As(err, &ve):
		r.Err, r.ErrName = "varlink", ve.Name
		if raw, ok := ve.Parameters.(*json.RawMessage); ok && raw != nil {
			r.ErrParams = string(*raw)
		} else if ve.Parameters != nil {
			if raw, ok := ve.Parameters.(*json.RawMessage); !ok || raw != nil {
				b, _ := json.Marshal(ve.Parameters)
				r.ErrParams = string(b)
			}
		}
	default:
		r.Err = "other: " + errClass(err)
	}
}

// bridgeTask plays the bridge subprocess: it connects to the service and
// copies bytes between its stdio pipe ends and that connection.
func bridgeTask(stdio *sim.Endpoint, network, addr string) {
	ep, err := sim.Dial(network, addr)
	if err != nil {
		stdio.Close()
		return
	}
	sim.Go("bridge-up", func() {
		buf := make([]byte, 4096)
		for {
			n, err := stdio.Read(buf)
			if n > 0 {
				if _, werr := ep.Write(buf[:n]); werr != nil {
					return
				}
			}
			if err != nil {
				ep.Close()
				return
			}
		}
	})
	buf := make([]byte, 4096)
	for {
		n, err := ep.Read(buf)
		if n > 0 {
			if _, werr := stdio.Write(buf[:n]); werr != nil {
				return
			}
		}
		if err != nil {
			stdio.Close()
			return
		}
	}
}

// dialClient returns a real Connection to the service over the given transport.
func dialClient(transport, network, addr string, pipe *sim.Conn) (*varlink.Connection, *sim.Endpoint, error) {
	if transport == "bridge" {
		return varlink.VerifNewBridgeConnection(sim.ReadHalf{E: pipe.Client}, sim.WriteHalf{E: pipe.Client}), pipe.Client, nil
	}
	ep, err := sim.Dial(network, addr)
	if err != nil {
		return nil, nil, err
	}
	return varlink.VerifNewConnection(ep), ep, nil
}

func (s *E2EScenario) Setup(k *sim.Kernel) {
	svc, regErrs := buildService(s.Service, s.Scripts)
	reportRegErrs(k, s.Service, regErrs)
	k.Spawn("serve", serveTask(svc, s.Service, context.Background()))
	network, addr := splitAddr(s.Service.Address)
	for ci, cl := range s.Clients {
		ci, cl := ci, cl
		var pipe *sim.Conn
		if cl.Transport == "bridge" {
			pipe = k.NewPipePair()
			k.Spawn(sf("bridge%d", ci), func() {
				sim.Await(sim.Cond{Kind: sim.CondBound, S1: network, S2: addr})
				bridgeTask(pipe.Server, network, addr)
			})
		}
		k.Spawn(sf("client%d", ci), func() {
			if cl.Transport != "bridge" {
				// (a bridge client talks to its pipe; the bridge task does the dialling)
				sim.Await(sim.Cond{Kind: sim.CondBound, S1: network, S2: addr})
			}
			if cl.StartUs > 0 {
				sim.Sleep(time.Duration(cl.StartUs) * time.Microsecond)
			}
			if cl.AfterClosed > 0 {
				sim.Await(sim.Cond{Kind: sim.CondLogged, S1: "c.closedtwice", N: cl.AfterClosed})
			}
			conn, ep, err := dialClient(cl.Transport, network, addr, pipe)
			if err != nil {
				sim.Rec("c.dialfail", sp(ci))
				return
			}
			sim.Rec("c.dial", sf(`{"client":%d,"conn":%d}`, ci, sim.ConnID(ep)))
			ctx := context.Background()
			expected := s.expectedReads(cl)
			type heldErr struct {
				err  error
				call int
				said string
			}
			var held []heldErr
			say := func(err error) string {
				var r e2eReply
				describeClientErr(err, &r)
				return r.Err + "|" + r.ErrName + "|" + r.ErrField + "|" + r.ErrParams
			}
			type pending struct {
				i    int
				recv func(context.Context, interface{}) (uint64, error)
				ctx  context.Context
			}
			var queue []pending
			// drain receives the replies of the oldest outstanding call; false: the connection is broken
			drain := func() bool {
				p := queue[0]
				queue = queue[1:]
				for j := 0; j < expected[p.i]; j++ {
					var out json.RawMessage
					var flags uint64
					var err error
					if cl.Calls[p.i].TypedOut {
						var tout struct {
							Field int `json:"field"`
						}
						flags, err = p.recv(p.ctx, &tout)
					} else {
						flags, err = p.recv(p.ctx, &out)
					}
					if err != nil {
						held = append(held, heldErr{err, p.i, say(err)})
					}
					r := e2eReply{Client: ci, Call: p.i, J: j, Flags: flags, Out: string(out)}
					describeClientErr(err, &r)
					sim.Rec("c.reply", mustJSON(r))
					if strings.HasPrefix(r.Err, "other") {
						return false
					}
				}
				return true
			}
			broken := false
			for i, call := range cl.Calls {
				if call.PauseUs > 0 {
					sim.Sleep(time.Duration(call.PauseUs) * time.Microsecond)
				}
				ctx := ctx
				if call.DeadlineUs > 0 {
					ctx = sim.NewCtx(time.Duration(call.DeadlineUs) * time.Microsecond)
				}
				if call.Via == "call" {
					for len(queue) > 0 && !broken {
						broken = !drain()
					}
					if broken {
						break
					}
					var out json.RawMessage
					err := conn.Call(ctx, call.Method, rawOrNil(call.Params), &out)
					if err != nil {
						held = append(held, heldErr{err, i, say(err)})
					}
					r := e2eReply{Client: ci, Call: i, Out: string(out)}
					describeClientErr(err, &r)
					sim.Rec("c.reply", mustJSON(r))
					if strings.HasPrefix(r.Err, "other") {
						broken = true
						break
					}
					continue
				}
				sctx := context.Context(ctx)
				var ends *sim.DeadlineCtx
				if call.SendCtxEnds {
					ends = sim.NewCtx(0)
					sctx = ends
				}
				var recv func(context.Context, interface{}) (uint64, error)
				var err error
				if call.FailFirst {
					dead := sim.NewCtx(time.Microsecond)
					sim.Sleep(2 * time.Microsecond)
					recv, err = conn.Send(dead, call.Method, rawOrNil(call.Params), call.Flags)
					sim.Rec("c.failfirst", errClass(err))
					if err != nil {
						recv = nil
					}
				}
				if recv == nil && call.Via == "upgrade" {
					// Connection.Upgrade: the same exchange with the upgrade flag; what its
					// receive function returns for the reply is judged like any reply
					var r2 func(context.Context, interface{}) (uint64, varlink.ReadWriterContext, error)
					r2, err = conn.Upgrade(sctx, call.Method, rawOrNil(call.Params))
					if err == nil {
						recv = func(ctx context.Context, out interface{}) (uint64, error) {
							f, _, err := r2(ctx, out)
							return f, err
						}
					}
				} else if recv == nil {
					recv, err = conn.Send(sctx, call.Method, rawOrNil(call.Params), call.Flags)
				}
				if ends != nil {
					ends.Cancel()
				}
				if err != nil {
					sim.Rec("c.sendfail", sf(`{"client":%d,"call":%d}`, ci, i))
					broken = true
					break
				}
				if call.RetryDeadlineUs > 0 && expected[i] > 0 && len(queue) == 0 {
					var out json.RawMessage
					_, err := recv(sim.NewCtx(time.Duration(call.RetryDeadlineUs)*time.Microsecond), &out)
					sim.Rec("c.retry", sf(`{"client":%d,"call":%d,"err":%q}`, ci, i, errClass(err)))
				}
				queue = append(queue, pending{i, recv, ctx})
				for len(queue) > 0 && (len(queue) >= cl.Window || cl.Window <= 1) && !broken {
					broken = !drain()
				}
				if broken {
					break
				}
			}
			for len(queue) > 0 && !broken {
				broken = !drain()
			}
			// an error value keeps saying what it said when it was returned
			for _, h := range held {
				if now := say(h.err); now != h.said {
					sim.Rec("c.errchanged", sf(`{"client":%d,"call":%d,"was":%q,"now":%q}`, ci, h.call, h.said, now))
				}
			}
			sim.Rec("c.done", sp(ci))
			if cl.CloseTwice {
				conn.Close()
				conn.Close()
				sim.Rec("c.closedtwice", sp(ci))
				return
			}
			sim.Await(sim.Cond{Kind: sim.CondQuiescent})
			conn.Close()
		})
	}
	if s.ShutdownAfterEnters > 0 {
		k.Spawn("early-shutdown", func() {
			awaitTriggers(sf("accepted:%d,ev:h.enter:%d", len(s.Clients), s.ShutdownAfterEnters), network, addr)
			sim.Rec("shutdown.call", "early")
			svc.Shutdown()
		})
	}
	k.Spawn("controller", func() {
		for i := 0; i < 2; i++ {
			sim.Await(sim.Cond{Kind: sim.CondQuiescent})
		}
		svc.Shutdown()
	})
}

func (c E2ECall) frame() FrameSpec {
	more, oneway, upgrade := c.Flags&varlink.More != 0, c.Flags&varlink.Oneway != 0, c.Flags&varlink.Upgrade != 0
	if c.Via == "call" {
		more, oneway, upgrade = false, false, false
	}
	if c.Via == "upgrade" {
		more, oneway, upgrade = false, false, true
	}
	return FrameSpec{Cid: c.Cid, Text: callFrame(c.Method, c.Params, more, oneway, upgrade, nil)}
}

func (s *E2EScenario) model(cl E2EClient) ConnModel {
	var frames []FrameSpec
	for _, c := range cl.Calls {
		frames = append(frames, c.frame())
	}
	return ModelConn(s.Service, frames, 0, s.Scripts)
}

// expectedReads: how many replies the model predicts per call (the client
// reads exactly that many; one more would block for ever by design of the protocol).
func (s *E2EScenario) expectedReads(cl E2EClient) []int {
	cm := s.model(cl)
	out := make([]int, len(cl.Calls))
	for _, r := range cm.Replies {
		for i, c := range cl.Calls {
			if c.Cid == r.Cid {
				out[i]++
			}
		}
	}
	// a call after which the server ends the connection: one more read observes the EOF
	if cm.ServerCloses {
		for i, c := range cl.Calls {
			if c.Cid == cm.EndsAfterCid {
				out[i]++
			}
		}
	}
	return out
}

func (s *E2EScenario) PostDrain(k *sim.Kernel, left []string) []sim.Violation { return nil }

func (s *E2EScenario) NonTrivial(k *sim.Kernel) bool {
	for _, e := range k.Log {
		if e.Kind == "c.reply" {
			return true
		}
	}
	return false
}

// checkWire: a wire direction is a sequence of JSON objects each followed by exactly one NUL.
func checkWire(dir string, tap []byte) (int, *sim.Violation) {
	n := 0
	for len(tap) > 0 {
		i := bytes.IndexByte(tap, 0)
		if i < 0 {
			v := vio("framing", "message-without-nul "+dir, "%s: the last %d bytes on the wire are not followed by a NUL: %s", dir, len(tap), abbreviate(string(tap), 80))
			return n, &v
		}
		chunk := tap[:i]
		tap = tap[i+1:]
		if len(chunk) == 0 {
			v := vio("framing", "empty-message "+dir, "%s: two NUL bytes in a row after %d messages", dir, n)
			return n, &v
		}
		dec := json.NewDecoder(bytes.NewReader(chunk))
		dec.UseNumber()
		var val interface{}
		if err := dec.Decode(&val); err != nil {
			v := vio("framing", "message-not-json "+dir, "%s: message %d is not valid JSON (%v): %s", dir, n, err, abbreviate(string(chunk), 120))
			return n, &v
		}
		rest, _ := readAll(dec)
		if len(trimJSONSpace(rest)) != 0 {
			v := vio("framing", "message-not-json "+dir, "%s: message %d has trailing bytes after the JSON value: %s", dir, n, abbreviate(string(chunk), 120))
			return n, &v
		}
		if _, ok := val.(map[string]interface{}); !ok {
			v := vio("framing", "message-not-object "+dir, "%s: message %d is not a JSON object: %s", dir, n, abbreviate(string(chunk), 120))
			return n, &v
		}
		n++
	}
	return n, nil
}

func (s *E2EScenario) Check(k *sim.Kernel) []sim.Violation {
	var out []sim.Violation
	// client index -> the connection that reaches the service, and the client's own end
	svcConn := map[int]*sim.Conn{}
	clientEnd := map[int]*sim.Endpoint{}
	for _, e := range k.Log {
		if e.Kind == "c.dial" {
			var d struct{ Client, Conn int }
			json.Unmarshal([]byte(e.Data), &d)
			c := k.Conns[d.Conn]
			clientEnd[d.Client] = c.Client
			svcConn[d.Client] = c
			if c.Network == "pipe" {
				// the bridge's own connection to the service was dialled by the bridge task
				for _, c2 := range k.Conns {
					if c2.Network != "pipe" && c2.DialedBy == bridgeTaskID(k, d.Client) {
						svcConn[d.Client] = c2
					}
				}
			}
		}
	}
	replies := map[int][]e2eReply{}
	done := map[int]bool{}
	for _, e := range k.Log {
		switch e.Kind {
		case "c.reply":
			var r e2eReply
			json.Unmarshal([]byte(e.Data), &r)
			replies[r.Client] = append(replies[r.Client], r)
		case "c.done":
			var ci int
			fmt.Sscan(e.Data, &ci)
			done[ci] = true
		case "c.sendfail":
			var f struct{ Client, Call int }
			json.Unmarshal([]byte(e.Data), &f)
			if f.Client < len(s.Clients) {
				// the service hangs up after a handler failure: a later Send may fail
				cm := s.model(s.Clients[f.Client])
				ended := false
				for i, c := range s.Clients[f.Client].Calls {
					if cm.ServerCloses && c.Cid == cm.EndsAfterCid && i < f.Call {
						ended = true
					}
				}
				if ended {
					break
				}
			}
			out = append(out, vio("client", "send-failed", "Send failed: %s", e.Data))
		case "c.errchanged":
			out = append(out, vio("client", "error-value-changed", "an error value returned by the client API says something else at the end of the run than when it was returned: %s", abbreviate(e.Data, 300)))
		case "c.retry":
			var r struct {
				Client, Call int
				Err          string
			}
			json.Unmarshal([]byte(e.Data), &r)
			if r.Err == "nil" {
				out = append(out, vio("client", "receive-before-reply", "client%d call %d: a receive whose deadline expires before the handler replies reported success", r.Client, r.Call))
			} else if r.Err != "deadline" && r.Err != "timeout" && r.Err != "canceled" {
				out = append(out, vio("client", "timed-out-receive-wrong-error", "client%d call %d: a receive whose deadline expired returned %q", r.Client, r.Call, r.Err))
			}
		}
	}
	// handler observations by connection
	perClient := map[int][]hev{}
	for _, e := range k.Log {
		if !strings.HasPrefix(e.Kind, "h.") {
			continue
		}
		for ci := range s.Clients {
			if c := svcConn[ci]; c != nil && c.Server.UsedBy(e.Task) {
				perClient[ci] = append(perClient[ci], hev{e.Seq, e.Kind, e.Data})
				break
			}
		}
	}
	quiet := k.StopReason() == "quiescent"
	for ci, cl := range s.Clients {
		key := sf("client%d(%s)", ci, cl.Transport)
		conn := svcConn[ci]
		if conn == nil || clientEnd[ci] == nil {
			out = append(out, vio("harness", key, "client never connected"))
			continue
		}
		cm := s.model(cl)
		// ---- the wire, both directions
		nReq, v := checkWire(key+" client->service", clientEnd[ci].Tap)
		if v != nil && !(cm.ServerCloses && strings.HasPrefix(v.Key, "message-without-nul")) {
			// (after a handler failure the service hangs up: the client may be cut in the middle of its next request)
			out = append(out, *v)
		}
		nRep, v := checkWire(key+" service->client", conn.Server.Tap)
		if v != nil {
			out = append(out, *v)
		}
		if quiet && done[ci] && cm.AmbiguousFrom < 0 {
			if nRep != len(cm.Replies) {
				out = append(out, vio("framing", "message-count service->client", "%s: the model predicts %d reply messages, the wire carries %d", key, len(cm.Replies), nRep))
			}
			wantReq := len(cl.Calls)
			if cm.ServerCloses {
				wantReq = 0
				for i, c := range cl.Calls {
					wantReq = i + 1
					if c.Cid == cm.EndsAfterCid {
						break
					}
				}
			}
			if nReq != wantReq && !(cm.ServerCloses && nReq > wantReq) {
				out = append(out, vio("framing", "message-count client->service", "%s: the client made %d calls, the wire carries %d call messages", key, wantReq, nReq))
			}
		}
		// ---- what the client put on the wire says what was asked for
		reqs := bytes.Split(clientEnd[ci].Tap, []byte{0})
		for i, c := range cl.Calls {
			if i >= len(reqs) || len(reqs[i]) == 0 {
				break
			}
			got := parseCall(string(reqs[i]))
			want := parseCall(c.frame().Text)
			if !got.ok || got.method != want.method || got.more != want.more || got.oneway != want.oneway || got.upgrade != want.upgrade {
				out = append(out, vio("request", "request-frame-wrong", "%s call %d: asked for method %q more=%v oneway=%v upgrade=%v, the wire says %s", key, i, want.method, want.more, want.oneway, want.upgrade, abbreviate(string(reqs[i]), 200)))
				break
			}
			wp, gp := "{}", "{}"
			if want.hasParams {
				wp, _ = canon(want.params)
			}
			if got.hasParams {
				gp, _ = canon(got.params)
			}
			if wp != gp {
				out = append(out, vio("params", "request-params-on-wire", "%s call %d: parameters passed %s, on the wire %s", key, i, abbreviate(wp, 200), abbreviate(gp, 200)))
				break
			}
		}
		// ---- service side: the generic per-connection oracle (dispatch, handler parameters and flags, reply stream)
		var frames []FrameSpec
		for _, c := range cl.Calls {
			frames = append(frames, c.frame())
		}
		out = append(out, checkClientConn(key, s.Service, s.Scripts, ClientSpec{Frames: frames, End: "close"}, conn, perClient[ci], !quiet, false, false)...)
		// ---- client side: what receive / Call returned
		obs := replies[ci]
		oi := 0
		for i, c := range cl.Calls {
			var exp []ReplyModel
			for _, r := range cm.Replies {
				if r.Cid == c.Cid {
					exp = append(exp, r)
				}
			}
			if cm.AmbiguousFrom >= 0 {
				break
			}
			for j, r := range exp {
				if oi >= len(obs) {
					if quiet {
						out = append(out, vio("client", "reply-not-received", "%s call %d (cid %d): reply %d %v was never returned by the client API", key, i, c.Cid, j, r))
					}
					break
				}
				o := obs[oi]
				oi++
				if o.Call != i {
					out = append(out, vio("client", "reply-misattributed", "%s: reply %v of call %d was returned for call %d", key, r, i, o.Call))
					break
				}
				if v := compareClientReply(key, i, c, r, o); v != nil {
					out = append(out, *v)
					break
				}
			}
			if cm.ServerCloses && c.Cid == cm.EndsAfterCid {
				// the read after a failed handler must report the end of the stream, not a reply
				if oi < len(obs) && obs[oi].Call == i {
					o := obs[oi]
					oi++
					if !strings.HasPrefix(o.Err, "other") {
						out = append(out, vio("client", "reply-after-handler-failure", "%s call %d: the handler failed (connection ended) but the client API returned err=%q out=%s", key, i, o.Err, abbreviate(o.Out, 100)))
					}
				}
				break
			}
		}
	}
	return out
}

func bridgeTaskID(k *sim.Kernel, ci int) string {
	id := k.RootID(sf("bridge%d", ci))
	if id == "" {
		return "no-such-task"
	}
	return id
}

// compareClientReply: what the client API returned for one predicted reply.
func compareClientReply(key string, i int, c E2ECall, r ReplyModel, o e2eReply) *sim.Violation {
	mk := func(k2, format string, a ...interface{}) *sim.Violation {
		v := vio("client", k2, "%s call %d (cid %d, %s): %s", key, i, c.Cid, c.Method, sf(format, a...))
		return &v
	}
	if r.Error == "" {
		if o.Err != "" {
			return mk("reply-became-error", "the service replied %v but the client API returned error %q %q", r, o.Err, o.ErrName)
		}
		if (o.Flags&varlink.Continues != 0) != r.Continues {
			return mk("continues-flag", "the service replied %v but the client reports continues=%v", r, o.Flags&varlink.Continues != 0)
		}
		got := "{}"
		if o.Out != "" {
			g, err := canon([]byte(o.Out))
			if err != nil {
				return mk("reply-params-garbled", "the client stored non-JSON parameters %s", abbreviate(o.Out, 120))
			}
			got = g
			if got == "null" {
				got = "{}"
			}
		}
		if !sameReply(ReplyModel{Params: got, Continues: r.Continues}, r) {
			return mk("reply-params", "the service replied %s, the client returned %s", abbreviate(r.Params, 200), abbreviate(got, 200))
		}
		return nil
	}
	// error replies
	if strings.HasPrefix(r.Error, "org.varlink.service.") {
		short := strings.TrimPrefix(r.Error, "org.varlink.service.")
		switch short {
		case "InterfaceNotFound", "MethodNotFound", "MethodNotImplemented", "InvalidParameter":
			if o.Err != short {
				return mk("typed-error", "the service sent %s, the client returned %q %q", r.Error, o.Err, o.ErrName)
			}
			if r.AnyParamName {
				return nil
			}
			var p map[string]string
			json.Unmarshal([]byte(r.Params), &p)
			want := ""
			for _, v := range p {
				want = v
			}
			if o.ErrField != want {
				return mk("typed-error-field", "the service sent %s with %s, the client's typed error carries %q", r.Error, r.Params, o.ErrField)
			}
			return nil
		}
	}
	if o.Err != "varlink" {
		return mk("error-reply-lost", "the service sent error %q, the client returned err=%q out=%s", r.Error, o.Err, abbreviate(o.Out, 80))
	}
	if o.ErrName != r.Error {
		return mk("error-name", "the service sent error %q, the client's error is named %q", r.Error, o.ErrName)
	}
	got := "{}"
	if o.ErrParams != "" {
		g, err := canon([]byte(o.ErrParams))
		if err == nil {
			got = g
		} else {
			got = "!" + o.ErrParams
		}
		if got == "null" {
			got = "{}"
		}
	}
	if got != r.Params {
		return mk("error-params", "the service sent error %q with parameters %s, the client's error carries %s", r.Error, abbreviate(r.Params, 200), abbreviate(got, 200))
	}
	return nil
}

func (s *E2EScenario) clone() *E2EScenario {
	b, _ := json.Marshal(s)
	var c E2EScenario
	json.Unmarshal(b, &c)
	return &c
}

func (s *E2EScenario) Shrinks() []Scenario {
	var out []Scenario
	for i := range s.Clients {
		if len(s.Clients) > 1 {
			c := s.clone()
			c.Clients = append(c.Clients[:i], c.Clients[i+1:]...)
			out = append(out, c)
		}
	}
	for i := range s.Clients {
		for j := range s.Clients[i].Calls {
			if len(s.Clients[i].Calls) > 1 {
				c := s.clone()
				c.Clients[i].Calls = append(c.Clients[i].Calls[:j], c.Clients[i].Calls[j+1:]...)
				out = append(out, c)
			}
		}
		if s.Clients[i].Transport != "stream" {
			c := s.clone()
			c.Clients[i].Transport = "stream"
			out = append(out, c)
		}
	}
	for cid, sc := range s.Scripts {
		for j := range sc.Actions {
			if len(sc.Actions) > 1 {
				c := s.clone()
				a := c.Scripts[cid].Actions
				c.Scripts[cid] = Script{Actions: append(a[:j:j], a[j+1:]...)}
				out = append(out, c)
			}
		}
	}
	cfgs := []func(*sim.Config) bool{
		func(c *sim.Config) bool { ok := c.YieldDensity != 0; c.YieldDensity = 0; return ok },
		func(c *sim.Config) bool { ok := c.Segmentation != 0; c.Segmentation = 0; return ok },
		func(c *sim.Config) bool { ok := c.ShortReads != 0; c.ShortReads = 0; return ok },
		func(c *sim.Config) bool { ok := c.MaxLatencyUs != 0; c.MaxLatencyUs = 0; return ok },
		func(c *sim.Config) bool { ok := c.PipeCap != 0; c.PipeCap = 0; return ok },
	}
	for _, f := range cfgs {
		c := s.clone()
		if f(&c.Config) {
			out = append(out, c)
		}
	}
	return out
}

func decodeE2E(raw json.RawMessage) (Scenario, error) {
	var s E2EScenario
	if err := json.Unmarshal(raw, &s); err != nil {
		return nil, err
	}
	return &s, nil
}

// ---------------------------------------------------------------------------
// generation

func init() {
	register(&Property{ID: "C02", Gen: genC02, Decode: decodeEither(decodeE2E)})
	register(&Property{ID: "C03", Gen: genC03, Decode: decodeE2E})
	register(&Property{ID: "C12", Gen: genC12, Decode: decodeE2E})
	raceFamilies["e2e"] = decodeE2E
}

// genE2E builds the common part; params / script generators are supplied by the property.
func genE2E(g *Gen, prop string, params func() string, script func(more bool) Script, pctMore int) *E2EScenario {
	s := genE2EBase(g, prop, params, script, pctMore)
	switch k := g.IntN(100); {
	case k < 8:
		// Shutdown in the middle of the traffic
		n := 0
		for _, cl := range s.Clients {
			n += len(cl.Calls)
		}
		s.ShutdownAfterEnters = 1 + g.IntN(n)
	case k < 16:
		// a service with an idle timeout: the first client keeps its connection
		// open over many expiries (a pause of two hours before one of its calls),
		// the others connect in between and must be served like anybody else
		s.Service.TimeoutNs = int64(1+g.IntN(1800)) * 1e9
		c0 := &s.Clients[0]
		c0.Transport, c0.StartUs = "stream", 0
		c0.Calls[g.IntN(len(c0.Calls))].PauseUs = 7200e6
		for _, c := range c0.Calls {
			// (the anchor's connection must not be ended by a failing handler)
			sc := s.Scripts[c.Cid]
			for len(sc.Actions) > 0 && sc.Actions[len(sc.Actions)-1].Op == "fail" {
				sc.Actions = sc.Actions[:len(sc.Actions)-1]
			}
			s.Scripts[c.Cid] = sc
		}
		for i := 1; i < len(s.Clients); i++ {
			s.Clients[i].StartUs = g.IntN(3600e6)
		}
	}
	// a "Quit" method: one handler asks the service to stop before it replies;
	// accepted connections are served to their end all the same
	if g.Pct(4) {
		cids := make([]int, 0, len(s.Scripts))
		for c := range s.Scripts {
			if c > 0 {
				cids = append(cids, c)
			}
		}
		sortInts(cids)
		if len(cids) > 0 && s.Service.TimeoutNs == 0 {
			c := cids[g.IntN(len(cids))]
			sc := s.Scripts[c]
			sc.Actions = append([]Action{{Op: "shutdown", N: len(s.Clients)}}, sc.Actions...)
			s.Scripts[c] = sc
			// (everybody has to be connected by then)
			for ci := range s.Clients {
				s.Clients[ci].StartUs = 0
			}
		}
	}
	// pipelining: two or three calls outstanding on a connection (small messages
	// only: nobody reads replies while the requests are being written)
	for ci := range s.Clients {
		if g.Pct(12) {
			cl := &s.Clients[ci]
			small, total := true, 0
			for _, c := range cl.Calls {
				total += len(c.Params) + 100
				if c.RetryDeadlineUs > 0 {
					small = false
				}
				for _, a := range s.Scripts[c.Cid].Actions {
					total += len(a.Params) + 100
					if a.Op == "fail" {
						small = false // the service hangs up there: nothing may be in flight behind it
					}
				}
			}
			// (with more in flight than the pipes hold, a client that writes requests
			// while nobody reads the replies deadlocks with the service by design)
			if small && total < 16000 {
				cl.Window = 2 + g.IntN(2)
				s.Config.PipeCap = 0
				// (a reply that waits in the window while the client pauses for hours
				// would outlive the deadline of its own call)
				for i := range cl.Calls {
					cl.Calls[i].PauseUs, cl.Calls[i].DeadlineUs = 0, 0
				}
			}
		}
	}
	for ci := range s.Clients {
		for i := range s.Clients[ci].Calls {
			if c := &s.Clients[ci].Calls[i]; c.Via == "send" && c.RetryDeadlineUs == 0 && g.Pct(8) {
				c.SendCtxEnds = true
			}
			if c := &s.Clients[ci].Calls[i]; c.Via == "send" && g.Pct(5) {
				c.FailFirst = true
			}
		}
	}
	if prop == "C03" && g.Pct(10) {
		// the empty object is an object too; the dispatcher finds no "cid" in it
		// and runs script -1 (at most one such call per connection)
		s.Scripts[-1] = script(false)
		for ci := range s.Clients {
			if g.Pct(60) {
				cl := &s.Clients[ci]
				c := &cl.Calls[g.IntN(len(cl.Calls))]
				delete(s.Scripts, c.Cid)
				c.Cid, c.Params, c.RetryDeadlineUs = -1, "{}", 0
				if c.Flags&varlink.More != 0 {
					c.Flags &^= varlink.More
				}
			}
		}
	}
	return s
}

func genE2EBase(g *Gen, prop string, params func() string, script func(more bool) Script, pctMore int) *E2EScenario {
	s := &E2EScenario{Prop: prop, Config: genConfig(g), Scripts: map[int]Script{}}
	s.Config.YieldDensity = g.IntN(2)
	s.Service = genService(g, 1+g.IntN(2), g.Pick("unix:@e2e", "tcp:127.0.0.1:4100"))
	nClients := 1 + g.IntN(2)
	cid := 0
	for c := 0; c < nClients; c++ {
		cl := E2EClient{Transport: "stream"}
		if g.Pct(30) {
			cl.Transport = "bridge"
		}
		n := 1 + g.IntN(5)
		for i := 0; i < n; i++ {
			cid++
			iface := s.Service.Ifaces[g.IntN(len(s.Service.Ifaces))].Name
			call := E2ECall{Cid: cid, Method: iface + "." + g.Pick("M", "Ping", "Ünï"), Via: "send"}
			more := g.Pct(pctMore)
			if more {
				call.Flags |= varlink.More
			} else if g.Pct(15) {
				call.Flags |= varlink.Oneway
			} else if g.Pct(20) {
				call.Via = "call"
			}
			call.Params = withCid(cid, params())
			if g.Pct(10) {
				call.DeadlineUs = 3600e6
			}
			if g.Pct(8) {
				call.PauseUs = 7200e6
			}
			s.Scripts[cid] = script(more)
			if call.Via == "send" && call.Flags&varlink.Oneway == 0 && g.Pct(10) {
				call.RetryDeadlineUs = 1000
				sc := s.Scripts[cid]
				sc.Actions = append([]Action{{Op: "sleep", N: 5000}}, sc.Actions...)
				s.Scripts[cid] = sc
			}
			cl.Calls = append(cl.Calls, call)
		}
		s.Clients = append(s.Clients, cl)
	}
	return s
}

// roundTripParams: JSON objects that stress value pass-through.
func (g *Gen) roundTripParams() string {
	switch g.IntN(12) {
	case 0:
		return `{}`
	case 1:
		return `{"n":9007199254740993,"m":-9223372036854775808,"big":18446744073709551616,"z":-0,"e":1e400,"f":0.1000000000000000055511151231257827,"one":1.0,"exp":1E+2}`
	case 2:
		return `{"null":null,"empty":{},"arr":[],"nested":{"a":{"b":{"c":[{}]}}},"t":true,"f":false}`
	case 3:
		return `{"s":` + quote(g.String(60)) + `,"ü":` + quote(g.String(10)) + `,"":"empty key","\u0000":"nul key"}`
	case 4:
		return g.ParamsObject(2)
	case 5:
		return g.ParamsObject(3)
	case 6:
		return `{"html":"<script>&amp;</script>","sep":"  ","esc":"\\\"\/\b\f\n\r\t","hi":"😀"}`
	default:
		return g.ParamsObject(g.IntN(2))
	}
}

// genC03Lockstep: one more-call whose handler sends each further reply only
// after the client has received the previous one - every reply is on the wire
// when Reply returns, not when the sequence is complete.
func genC03Lockstep(g *Gen) Scenario {
	s := &E2EScenario{Prop: "C03", Config: genConfig(g), Scripts: map[int]Script{}}
	s.Service = genService(g, 1, "unix:@lockstep")
	var sc Script
	n := 1 + g.IntN(4)
	for i := 1; i <= n; i++ {
		sc.Actions = append(sc.Actions, Action{Op: "reply", Continues: true, Params: g.roundTripParams()}, Action{Op: "awaitev", Name: "c.reply", N: i})
	}
	sc.Actions = append(sc.Actions, Action{Op: "reply", Params: g.roundTripParams()})
	s.Scripts[1] = sc
	s.Clients = []E2EClient{{Transport: g.Pick("stream", "stream", "bridge"), Calls: []E2ECall{{Cid: 1, Method: s.Service.Ifaces[0].Name + ".M",
		Params: withCid(1, g.roundTripParams()), Flags: varlink.More, Via: "send"}}}}
	return s
}

func genC03(seed uint64, tier string) Scenario {
	g := NewGen(seed, 0xC03)
	if g.IntN(25) == 0 {
		return genC03Lockstep(g)
	}
	script := func(more bool) Script {
		var sc Script
		if more {
			n := g.IntN(6)
			if g.Pct(10) {
				n = 20
			}
			for i := 0; i < n; i++ {
				sc.Actions = append(sc.Actions, Action{Op: "reply", Continues: true, Params: g.roundTripParams()})
			}
		}
		p := g.roundTripParams()
		if g.Pct(10) {
			p = ""
		}
		switch {
		case g.Pct(8):
			// error replies carry parameters too (and oneway calls get none of them)
			sc.Actions = append(sc.Actions, Action{Op: "error", Name: "a.b." + g.Pick("E", "Failed", "InvalidParameter", "MethodNotFound"), Params: p})
		case g.Pct(4):
			sc.Actions = append(sc.Actions, Action{Op: "builtin", Name: g.Pick("MethodNotFound", "MethodNotImplemented", "InvalidParameter"), Arg: g.String(8)})
		default:
			sc.Actions = append(sc.Actions, Action{Op: "reply", Params: p})
		}
		return sc
	}
	return genE2E(g, "C03", g.roundTripParams, script, 40)
}

// genC02Raw: the raw leg of C02 — a raw client writes well-formed frames in
// adversarial partitions and ends its stream with bytes that are NOT followed
// by a NUL (also ones that would parse as a call): a message is what a NUL
// terminates, nothing else is ever dispatched, whatever the segmentation.
func genC02Raw(seed uint64, tier string) Scenario {
	g := NewGen(seed, 0xC02F)
	s := &ProtoScenario{Prop: "C02", Config: genConfig(g), Scripts: map[int]Script{}, Shutdown: true}
	s.Config.Segmentation = 1 + g.IntN(2)
	s.Config.ShortReads = 1 + g.IntN(2)
	s.Service = genService(g, 1+g.IntN(2), "unix:@c02raw")
	cid := 0
	for c, n := 0, 1+g.IntN(2); c < n; c++ {
		var cs ClientSpec
		for i, m := 0, 1+g.IntN(4); i < m; i++ {
			cid++
			iface := s.Service.Ifaces[g.IntN(len(s.Service.Ifaces))].Name
			s.Scripts[cid] = Script{Actions: []Action{{Op: "reply", Params: g.ParamsObject(g.IntN(3))}}}
			cs.Frames = append(cs.Frames, FrameSpec{Cid: cid, Text: callFrame(iface+".M", withCid(cid, g.ParamsObject(g.IntN(3))), false, false, false, g)})
		}
		cid++
		iface := s.Service.Ifaces[0].Name
		tail := callFrame(iface+".M", withCid(cid, `{}`), false, false, false, nil)
		s.Scripts[cid] = Script{Actions: []Action{{Op: "reply", Params: `{"must":"never be sent"}`}}}
		switch g.IntN(4) {
		case 0:
			tail += "\n"
		case 1:
			tail += " "
		case 2:
			tail = tail[:1+g.IntN(len(tail)-1)]
		}
		cs.Frames = append(cs.Frames, FrameSpec{Cid: cid, Text: tail, NoNul: true})
		cs.Cuts, cs.PauseUs = genCuts(g, len(cs.stream()))
		cs.End = g.Pick("close-now", "close", "close-now")
		s.Clients = append(s.Clients, cs)
	}
	return wrapMix("proto", s)
}

// genC02Bulk: a long-lived connection — a dozen calls and replies of about two
// MiB each (tens of MiB in the thorough tier) on ONE connection: whatever the
// endpoints keep per connection must not wear out with the volume.
func genC02Bulk(g *Gen, tier string) Scenario {
	s := &E2EScenario{Prop: "C02", Scripts: map[int]Script{}}
	s.Config = sim.Config{Sched: g.IntN(3), StickPct: 99, PipeCap: []int{0, 65536, 1 << 20}[g.IntN(3)], MaxSteps: 1000000}
	s.Service = genService(g, 1, "unix:@bulk")
	block := g.BigString(60000 + g.IntN(10000))
	huge := func() string {
		n := 28 + g.IntN(10) // ~ 1.7 .. 2.6 MiB
		return `{"huge":` + quote(strings.Repeat(block, n)+g.String(40)) + `}`
	}
	cl := E2EClient{Transport: g.Pick("stream", "stream", "bridge")}
	n := 9 + g.IntN(3)
	if tier == "thorough" {
		n += g.IntN(12)
	}
	for i := 1; i <= n; i++ {
		call := E2ECall{Cid: i, Method: s.Service.Ifaces[0].Name + ".M", Via: g.Pick("send", "call"), Params: withCid(i, huge())}
		sc := Script{}
		if call.Via == "send" && g.Pct(30) {
			call.Flags = varlink.More
			sc.Actions = append(sc.Actions, Action{Op: "reply", Continues: true, Params: huge()})
		}
		sc.Actions = append(sc.Actions, Action{Op: "reply", Params: huge()})
		s.Scripts[i] = sc
		cl.Calls = append(cl.Calls, call)
	}
	s.Clients = []E2EClient{cl}
	return s
}

// genC02Sizes: messages whose wire length, NUL included, is exactly a
// power-of-two block size or a multiple of one, and one byte less and more -
// the sizes at which chunked writes and buffer refills change branches.
func genC02Sizes(g *Gen, tier string) Scenario {
	s := &E2EScenario{Prop: "C02", Config: genConfig(g), Scripts: map[int]Script{}}
	s.Config.MaxLatencyUs, s.Config.PipeCap, s.Config.MaxSteps = 0, []int{0, 4096, 65536}[g.IntN(3)], 400000
	if s.Config.ShortReads == 2 {
		s.Config.ShortReads = 1
	}
	s.Service = genService(g, 1, "unix:@sizes")
	method := s.Service.Ifaces[0].Name + ".M"
	type mirror struct {
		Method     string          `json:"method,omitempty"`
		Parameters json.RawMessage `json:"parameters,omitempty"`
		More       bool            `json:"more,omitempty"`
	}
	// pad returns parameters such that the frame made of them is `target` bytes long on the wire
	pad := func(cid int, request bool, target int) string {
		mk := func(n int) string {
			p := `{"pad":"` + strings.Repeat("a", n) + `"}`
			if request {
				return withCid(cid, p)
			}
			return p
		}
		frame := func(n int) int {
			m := mirror{Parameters: json.RawMessage(mk(n))}
			if request {
				m.Method = method
			}
			b, _ := json.Marshal(m)
			return len(b) + 1
		}
		n := target - frame(0)
		if n < 0 {
			n = 0
		}
		return mk(n)
	}
	cl := E2EClient{Transport: g.Pick("stream", "stream", "bridge")}
	cid := 0
	blocks := []int{4096, 8192, 12288, 65536, 131072}
	if tier == "thorough" {
		blocks = append(blocks, 196608, 262144, 1<<20)
	}
	for i, n := 0, 1+g.IntN(2); i < n; i++ {
		t := blocks[g.IntN(len(blocks))]
		request := g.Pct(50)
		for _, target := range []int{t - 1, t, t + 1} {
			cid++
			call := E2ECall{Cid: cid, Method: method, Via: g.Pick("send", "call")}
			if request {
				call.Params = pad(cid, true, target)
				s.Scripts[cid] = Script{Actions: []Action{{Op: "reply", Params: `{"ok":true}`}}}
			} else {
				call.Params = withCid(cid, "{}")
				s.Scripts[cid] = Script{Actions: []Action{{Op: "reply", Params: pad(cid, false, target), ByValue: g.Pct(50)}}}
			}
			cl.Calls = append(cl.Calls, call)
		}
	}
	s.Clients = []E2EClient{cl}
	return s
}

func genC02(seed uint64, tier string) Scenario {
	g := NewGen(seed, 0xC02)
	if g.IntN(40) == 0 {
		return genC02Sizes(g, tier)
	}
	if g.IntN(1500) == 0 || os.Getenv("VERIF_DEV_FORCE_BULK") != "" {
		return genC02Bulk(g, tier)
	}
	if g.Pct(15) {
		return genC02Raw(seed, tier)
	}
	params := func() string {
		switch g.IntN(10) {
		case 0:
			return `{"nul":"a\u0000b\u0000","q":"\"\\\"","ctl":"\u0001\u001f\u007f","nb":"😀􏿿"}`
		case 1:
			return g.ParamsObject(2)
		case 2:
			return g.ParamsObject(3)
		case 3:
			if tier == "thorough" && g.Pct(30) {
				return g.ParamsObject(4)
			}
			return g.ParamsObject(2)
		case 4:
			return `{"s":` + quote(strings.Repeat("\x00", 1+g.IntN(50))+g.String(30)) + `}`
		default:
			return g.ParamsObject(g.IntN(2))
		}
	}
	script := func(more bool) Script {
		var sc Script
		if more {
			for i, n := 0, g.IntN(4); i < n; i++ {
				sc.Actions = append(sc.Actions, Action{Op: "reply", Continues: true, Params: params()})
			}
		}
		if g.Pct(6) {
			// parameters that are not one JSON document: the attempt is refused, nothing is written
			sc.Actions = append(sc.Actions, Action{Op: "reply", Params: g.Pick("{\"a\":\"x\x00y\"}", `{"a":1`, `{"a":1}{"b":2}`, "{\"a\":1}\x00", `{"a":}`)})
		}
		if g.Pct(15) {
			sc.Actions = append(sc.Actions, Action{Op: "error", Name: "a.b." + g.Pick("E", "Failed"), Params: params()})
		} else {
			sc.Actions = append(sc.Actions, Action{Op: "reply", Params: params()})
		}
		for i := range sc.Actions {
			sc.Actions[i].ByValue = g.Pct(35)
		}
		return sc
	}
	s := genE2E(g, "C02", params, script, 30)
	// framing is about segmentation: always cut and coalesce
	s.Config.Segmentation = 1 + g.IntN(2)
	s.Config.ShortReads = 1 + g.IntN(2)
	closeTwiceVariant(seed, s)
	return s
}

// closeTwiceVariant: the first client closes its connection twice when it is
// done, and only then do the others dial (a generator of its own: the scenarios
// of the other seeds stay what they were).
func closeTwiceVariant(seed uint64, s *E2EScenario) {
	if NewGen(seed, 0xC105).IntN(10) != 0 || len(s.Clients) < 2 || s.ShutdownAfterEnters > 0 || s.Service.TimeoutNs != 0 || s.Clients[0].Transport != "stream" {
		return
	}
	for _, sc := range s.Scripts {
		for _, a := range sc.Actions {
			if a.Op == "shutdown" || a.Op == "hold" || a.Op == "awaitev" {
				return
			}
		}
	}
	s.Clients[0].CloseTwice = true
	for i := 1; i < len(s.Clients); i++ {
		s.Clients[i].AfterClosed = 1
	}
}

func genC12(seed uint64, tier string) Scenario {
	g := NewGen(seed, 0xC12)
	script := func(more bool) Script {
		var sc Script
		if more && g.Pct(50) {
			sc.Actions = append(sc.Actions, Action{Op: "reply", Continues: true, Params: g.maybeParams(0)})
		}
		switch g.IntN(10) {
		case 0, 1:
			sc.Actions = append(sc.Actions, Action{Op: "builtin", Name: g.Pick("MethodNotFound", "MethodNotImplemented", "InvalidParameter", "InterfaceNotFound"), Arg: g.String(16)})
		case 2:
			// a refused error name followed by a proper reply
			// ... or by a proper error: a refused attempt changes nothing
			sc.Actions = append(sc.Actions, Action{Op: "error", Name: g.Pick("E", "", ".E", "org.varlink.service.X", "org.varlink.service.InvalidParameter", "."), Params: g.maybeParams(0)})
			if g.Pct(50) {
				sc.Actions = append(sc.Actions, Action{Op: "error", Name: "a.b." + g.Pick("Retry", "E"), Params: g.maybeParams(0)})
			} else {
				sc.Actions = append(sc.Actions, Action{Op: "reply", Params: g.maybeParams(0)})
			}
		default:
			p := g.maybeParams(g.IntN(2))
			if g.Pct(20) {
				p = g.roundTripParams()
			}
			sc.Actions = append(sc.Actions, Action{Op: "error", Name: g.errorName(), Params: p})
			if !errorNameSendable(sc.Actions[len(sc.Actions)-1].Name) {
				sc.Actions = append(sc.Actions, Action{Op: "reply", Params: `{"after":"refusal"}`})
			}
		}
		return sc
	}
	s := genE2E(g, "C12", func() string { return g.ParamsObject(0) }, script, 30)
	// the last call of a connection may go through Connection.Upgrade: an error
	// reply to it is the same error
	for ci := range s.Clients {
		cl := &s.Clients[ci]
		if c := &cl.Calls[len(cl.Calls)-1]; c.Via == "send" && c.Flags == 0 && c.RetryDeadlineUs == 0 && !c.FailFirst && cl.Window == 0 && g.Pct(20) {
			c.Via = "upgrade"
		}
	}
	// a typed out-parameter whose member collides with a member of the error's parameters
	for ci := range s.Clients {
		for i := range s.Clients[ci].Calls {
			c := &s.Clients[ci].Calls[i]
			sc := s.Scripts[c.Cid]
			if c.Via == "send" && c.Flags == 0 && len(sc.Actions) == 1 && sc.Actions[0].Op == "error" && errorNameSendable(sc.Actions[0].Name) && g.Pct(40) {
				sc.Actions[0].Params = `{"field":"seventeen","other":[1,2]}`
				s.Scripts[c.Cid] = sc
				c.TypedOut = true
			}
		}
	}
	return s
}
