package props

import (
	"sort"
	"strings"
)

// SplitRaceReports cuts the race detector's log into single reports.
func SplitRaceReports(text string) []string {
	var out []string
	parts := strings.Split(text, "==================")
	for _, p := range parts {
		if strings.Contains(p, "WARNING: DATA RACE") {
			out = append(out, strings.TrimSpace(p))
		}
	}
	return out
}

const varlinkPkg = "github.com/varlink/go/varlink"

// RaceKey identifies a race by the unordered pair of (access kind, innermost
// varlink function) of its two access stacks — never by line numbers. ok is
// false when neither stack contains a frame of the library.
func RaceKey(report string) (string, bool) {
	lines := strings.Split(report, "\n")
	type acc struct {
		kind string
		fn   string
	}
	var accs []acc
	for i := 0; i < len(lines); i++ {
		ln := strings.TrimSpace(lines[i])
		kind := ""
		switch {
		case strings.HasPrefix(ln, "Write at"), strings.HasPrefix(ln, "Previous write at"):
			kind = "write"
		case strings.HasPrefix(ln, "Read at"), strings.HasPrefix(ln, "Previous read at"):
			kind = "read"
		case strings.HasPrefix(ln, "Atomic write at"), strings.HasPrefix(ln, "Previous atomic write at"):
			kind = "atomic-write"
		case strings.HasPrefix(ln, "Atomic read at"), strings.HasPrefix(ln, "Previous atomic read at"):
			kind = "atomic-read"
		}
		if kind == "" {
			continue
		}
		// The first frame that is not standard-library code tells whose access
		// it is: the library's (then that function names the access) or the
		// harness' (simhook seam, simulator, scenario code).
		fn := ""
		for j := i + 1; j < len(lines); j++ {
			f := strings.TrimSpace(lines[j])
			if f == "" {
				break
			}
			if strings.HasPrefix(f, "/") || !strings.Contains(f, "(") || strings.Contains(f, " +0x") {
				continue // file:line of the previous frame
			}
			// standard-library import paths have no dot in their first element
			first := f
			if k := strings.IndexByte(first, '/'); k >= 0 {
				first = first[:k]
			} else if k := strings.IndexByte(first, '.'); k >= 0 {
				first = first[:k]
			}
			isStd := !strings.Contains(first, ".") && first != "verifharness"
			if isStd {
				continue
			}
			// the transport's read / write shims stand for the system call that
			// fills or drains the CALLER's buffer: that access is the caller's
			if strings.HasPrefix(f, "verifharness/sim.(*Endpoint).Read(") || strings.HasPrefix(f, "verifharness/sim.(*Endpoint).Write(") ||
				strings.HasPrefix(f, "verifharness/sim.ReadHalf.Read(") || strings.HasPrefix(f, "verifharness/sim.WriteHalf.Write(") {
				continue
			}
			if strings.HasPrefix(f, varlinkPkg) && !strings.Contains(f, "/simhook.") && !strings.HasPrefix(f, varlinkPkg+".Verif") {
				fn = f
				if k := strings.LastIndex(fn, "("); k > 0 && strings.HasSuffix(fn, ")") {
					fn = fn[:k]
				}
				fn = strings.TrimPrefix(fn, "github.com/varlink/go/")
			}
			break
		}
		accs = append(accs, acc{kind, fn})
	}
	if len(accs) < 2 {
		return "", false
	}
	if accs[0].fn == "" && accs[1].fn == "" {
		return "", false
	}
	parts := []string{accs[0].kind + " " + accs[0].fn, accs[1].kind + " " + accs[1].fn}
	sort.Strings(parts)
	return strings.Join(parts, " / "), true
}
