package props

import (
	"context"
	"encoding/hex"
	"encoding/json"
	"errors"
	"net"
	"os"
	"strings"
	"time"
	"unicode/utf8"

	"github.com/varlink/go/varlink"

	"verifharness/sim"
)

// ---------------------------------------------------------------------------
// scenario data (JSON-serialisable)

// IfaceSpec is a registered test interface.
type IfaceSpec struct {
	Name string `json:"name"`
	Desc string `json:"desc"`
}

// ServiceSpec describes the service of a scenario.
type ServiceSpec struct {
	Vendor    string      `json:"vendor"`
	Product   string      `json:"product"`
	Version   string      `json:"version"`
	URL       string      `json:"url"`
	Ifaces    []IfaceSpec `json:"ifaces"`
	Address   string      `json:"address"`
	UseBind   bool        `json:"use_bind"` // Bind + DoListen instead of Listen
	TimeoutNs int64       `json:"timeout_ns"`
}

// Action is one step of a handler script.
type Action struct {
	// Op: reply | error | builtin | fail | sleep | shutdown | hold | rawread | rawwrite
	Op        string `json:"op"`
	Continues bool   `json:"continues,omitempty"`
	// Params is the JSON text of the parameters ("" = nil interface).
	Params string `json:"params,omitempty"`
	Name   string `json:"name,omitempty"` // error name, or builtin kind
	Arg    string `json:"arg,omitempty"`  // builtin argument
	N      int    `json:"n,omitempty"`    // sleep µs / raw read size
	Data   string `json:"data,omitempty"` // raw write payload
	// DeadlineUs > 0: the reply is sent under a context with this (generous)
	// deadline on the simulated clock; it must not leak into later replies.
	DeadlineUs int `json:"deadline_us,omitempty"`
	// ByValue (reply, error): the parameters are handed over as a json.RawMessage
	// value instead of a pointer to one.
	ByValue bool `json:"by_value,omitempty"`
	// KeepFlag (reply): the handler does not touch Call.Continues before this
	// attempt: the flag is what the previous action left it (a retry)
	KeepFlag bool `json:"keep_flag,omitempty"`
}

// Script is what the test dispatcher does for one call.
type Script struct {
	Actions []Action `json:"actions"`
}

// FrameSpec is one request frame a raw client sends.
type FrameSpec struct {
	Cid int `json:"cid"`
	// Text is the frame without the trailing NUL.
	Text string `json:"text"`
	// NoNul: the frame is sent without its terminating NUL (only as the last one).
	NoNul bool `json:"no_nul,omitempty"`
}

type frameJSON struct {
	Cid   int    `json:"cid"`
	Text  string `json:"text,omitempty"`
	Hex   string `json:"hex,omitempty"`
	NoNul bool   `json:"no_nul,omitempty"`
}

// MarshalJSON keeps frames that are not valid UTF-8 intact (hex).
func (f FrameSpec) MarshalJSON() ([]byte, error) {
	j := frameJSON{Cid: f.Cid, NoNul: f.NoNul}
	if utf8.ValidString(f.Text) {
		j.Text = f.Text
	} else {
		j.Hex = hex.EncodeToString([]byte(f.Text))
	}
	return json.Marshal(j)
}

func (f *FrameSpec) UnmarshalJSON(b []byte) error {
	var j frameJSON
	if err := json.Unmarshal(b, &j); err != nil {
		return err
	}
	f.Cid, f.NoNul, f.Text = j.Cid, j.NoNul, j.Text
	if j.Hex != "" {
		raw, err := hex.DecodeString(j.Hex)
		if err != nil {
			return err
		}
		f.Text = string(raw)
	}
	return nil
}

// ClientSpec is one raw client connection.
type ClientSpec struct {
	Frames []FrameSpec `json:"frames"`
	// Cuts are the sizes of the successive writes; the remainder goes in one last write.
	Cuts []int `json:"cuts,omitempty"`
	// PauseUs[i] is the simulated pause after write i.
	PauseUs []int `json:"pause_us,omitempty"`
	// StartUs delays the dial.
	StartUs int `json:"start_us,omitempty"`
	// End: "close" (orderly close after everything went quiet), "close-now"
	// (orderly close right after the last write), "abort" (reset right after the last write),
	// "abort-quiet" (reset after everything went quiet).
	End string `json:"end"`
	// StopAfter > 0: the client sends only the first StopAfter bytes of its stream.
	StopAfter int `json:"stop_after,omitempty"`
	// NoRead: the client never reads (the server's replies back up).
	NoRead bool `json:"no_read,omitempty"`
	// ReadPolicy overrides the run's short-read policy for this client (0 = run default).
	ReadPolicy int `json:"read_policy,omitempty"`
	// Wait is a comma separated list of triggers awaited in order before the
	// dial (see awaitTriggers); "" = until the address is bound.
	Wait string `json:"wait,omitempty"`
	// MustServe: the scenario guarantees that the service is serving when this
	// client dials; not being accepted and answered is a violation.
	MustServe bool `json:"must_serve,omitempty"`
	// HoldUs > 0: after the last write the client keeps the connection open for
	// this long (simulated) before its End action instead of waiting for quiescence.
	HoldUs int `json:"hold_us,omitempty"`
	// QuietPoints: how many quiescent points the client waits for before its End
	// action (0 = 1). A scenario whose handler blocks until the first quiet point
	// lets its clients stay until the second.
	QuietPoints int `json:"quiet_points,omitempty"`
}

func (c *ClientSpec) stream() []byte {
	var b []byte
	for _, f := range c.Frames {
		b = append(b, f.Text...)
		if !f.NoNul {
			b = append(b, 0)
		}
	}
	if c.StopAfter > 0 && c.StopAfter < len(b) {
		b = b[:c.StopAfter]
	}
	return b
}

// ---------------------------------------------------------------------------
// the scripted test dispatcher (real code on the service side calls it)

type testIface struct {
	spec    IfaceSpec
	scripts map[int]Script
	svc     *varlink.Service
	address string
}

func (d *testIface) VarlinkGetName() string        { return d.spec.Name }
func (d *testIface) VarlinkGetDescription() string { return d.spec.Desc }

type cidParams struct {
	Cid *int `json:"cid"`
}

func errStr(err error) string {
	if err == nil {
		return "nil"
	}
	return "err"
}

func rawOrNil(s string) interface{} {
	if s == "" {
		return nil
	}
	r := json.RawMessage(s)
	return &r
}

func (d *testIface) VarlinkDispatch(ctx context.Context, c varlink.Call, methodname string) error {
	cid := -1
	var p cidParams
	rawp := ""
	if c.In != nil && c.In.Parameters != nil {
		rawp = string(*c.In.Parameters)
	}
	if err := c.GetParameters(&p); err == nil && p.Cid != nil {
		cid = *p.Cid
		// reading them again gives the same again
		var again json.RawMessage
		if err2 := c.GetParameters(&again); err2 != nil || string(again) != rawp {
			rawp = "!second GetParameters: " + errStr(err2) + " " + string(again)
		}
	}
	sim.Rec("h.enter", mustJSON(map[string]interface{}{"iface": d.spec.Name, "method": methodname, "cid": cid,
		"more": c.WantsMore(), "oneway": c.IsOneway(), "upgrade": c.WantsUpgrade(), "params": rawp}))
	sc, ok := d.scripts[cid]
	if !ok {
		sc = Script{Actions: []Action{{Op: "reply"}}}
	}
	var ret error
	for i, a := range sc.Actions {
		ctx := ctx
		if a.DeadlineUs > 0 {
			ctx = sim.NewCtx(time.Duration(a.DeadlineUs) * time.Microsecond)
		}
		switch a.Op {
		case "reply":
			if !a.KeepFlag {
				c.Continues = a.Continues
			}
			var p interface{} = rawOrNil(a.Params)
			if a.ByValue && a.Params != "" {
				p = json.RawMessage(a.Params)
			}
			err := c.Reply(ctx, p)
			sim.Rec("h.act", sf(`{"cid":%d,"i":%d,"op":"reply","err":%q}`, cid, i, errStr(err)))
		case "error":
			var p interface{} = rawOrNil(a.Params)
			if a.ByValue && a.Params != "" {
				p = json.RawMessage(a.Params)
			}
			err := c.ReplyError(ctx, a.Name, p)
			sim.Rec("h.act", sf(`{"cid":%d,"i":%d,"op":"error","err":%q}`, cid, i, errStr(err)))
		case "builtin":
			var err error
			switch a.Name {
			case "MethodNotFound":
				err = c.ReplyMethodNotFound(ctx, a.Arg)
			case "MethodNotImplemented":
				err = c.ReplyMethodNotImplemented(ctx, a.Arg)
			case "InvalidParameter":
				err = c.ReplyInvalidParameter(ctx, a.Arg)
			case "InterfaceNotFound":
				err = c.ReplyInterfaceNotFound(ctx, a.Arg)
			}
			sim.Rec("h.act", sf(`{"cid":%d,"i":%d,"op":"builtin","err":%q}`, cid, i, errStr(err)))
		case "sleep":
			sim.Sleep(time.Duration(a.N) * time.Microsecond)
		case "stream":
			// a handler that streams continues-replies until Reply tells it that the
			// peer is gone (at most N of them, one every 50 simulated microseconds)
			for j := 0; j < a.N; j++ {
				c.Continues = true
				err := c.Reply(ctx, rawOrNil(a.Params))
				sim.Rec("h.stream", sf(`{"cid":%d,"j":%d,"err":%q}`, cid, j, errStr(err)))
				if err != nil {
					break
				}
				sim.Sleep(50 * time.Microsecond)
			}
		case "awaitev":
			// the handler goes on only when the other side has seen what was sent so
			// far (at least N log events of kind Name): replies are not held back
			sim.Await(sim.Cond{Kind: sim.CondLogged, S1: a.Name, N: a.N})
		case "shutdown":
			// a method that asks the service to stop ("Quit"): the connection it came
			// in on is served to its end like any other
			if a.N > 0 {
				// (not before that many connections have been accepted: the scenario's
				// other clients are in)
				network, addr := splitAddr(d.address)
				awaitTriggers(sf("accepted:%d", a.N), network, addr)
			}
			sim.Rec("shutdown.call", "handler")
			err := d.svc.Shutdown()
			sim.Rec("shutdown.return", describeErr(err))
		case "fail":
			// any error ends the connection, whatever its kind
			switch a.Name {
			case "deadline":
				ret = context.DeadlineExceeded
			case "timeout":
				ret = &net.OpError{Op: "write", Net: "sim", Err: os.ErrDeadlineExceeded}
			default:
				ret = errors.New("scripted handler failure")
			}
		case "hold":
			// the handler blocks until the rest of the world has gone quiet: calls on
			// OTHER connections must be served meanwhile
			sim.Await(sim.Cond{Kind: sim.CondQuiescent})
			sim.Rec("h.hold.released", sp(cid))
		case "rawread":
			buf := make([]byte, a.N)
			n, err := c.Conn.Read(ctx, buf)
			sim.Rec("h.rawread", mustJSON(map[string]interface{}{"cid": cid, "i": i, "data": string(buf[:n]), "err": errStr(err)}))
		case "readframe":
			b, err := c.Conn.ReadBytes(ctx, 0)
			sim.Rec("h.rawread", mustJSON(map[string]interface{}{"cid": cid, "i": i, "data": string(b), "err": errStr(err)}))
		case "rawwrite":
			_, err := c.Conn.Write(ctx, []byte(a.Data))
			sim.Rec("h.act", sf(`{"cid":%d,"i":%d,"op":"rawwrite","err":%q}`, cid, i, errStr(err)))
		}
		if ret != nil {
			break
		}
	}
	sim.Rec("h.leave", sf(`{"cid":%d,"fail":%v}`, cid, ret != nil))
	return ret
}

// ---------------------------------------------------------------------------
// building the service and the actors

func buildService(spec ServiceSpec, scripts map[int]Script) (*varlink.Service, []error) {
	svc, err := varlink.NewService(spec.Vendor, spec.Product, spec.Version, spec.URL)
	if err != nil {
		panic("NewService: " + err.Error())
	}
	var errs []error
	for _, is := range spec.Ifaces {
		errs = append(errs, svc.RegisterInterface(&testIface{spec: is, scripts: scripts, svc: svc, address: spec.Address}))
	}
	return svc, errs
}

// reportRegErrs: the interfaces of a scenario have distinct names and are
// registered on a service that has never served: a refusal is a finding.
func reportRegErrs(k *sim.Kernel, spec ServiceSpec, errs []error) {
	for i, err := range errs {
		if err != nil {
			k.Violate("registration", "fresh-name-refused", sf("RegisterInterface(%q) on a new service was refused: %v", spec.Ifaces[i].Name, err))
		}
	}
}

func splitAddr(address string) (string, string) {
	i := strings.IndexByte(address, ':')
	proto, rest := address[:i], address[i+1:]
	if j := strings.IndexByte(rest, ';'); j >= 0 {
		rest = rest[:j]
	}
	return proto, rest
}

// serveTask runs the serving call and records its return.
func serveTask(svc *varlink.Service, spec ServiceSpec, ctx context.Context) func() {
	return func() {
		var err error
		to := time.Duration(spec.TimeoutNs)
		sim.Rec("serve.start", "")
		if spec.UseBind {
			err = svc.Bind(ctx, spec.Address)
			if err == nil {
				err = svc.DoListen(ctx, to)
			}
		} else {
			err = svc.Listen(ctx, spec.Address, to)
		}
		sim.Rec("serve.return", describeErr(err))
	}
}

func describeErr(err error) string {
	if err == nil {
		return "nil"
	}
	var te varlink.ServiceTimeoutError
	if errors.As(err, &te) {
		return "timeout"
	}
	return "error: " + err.Error()
}

// rawClientTask dials and plays the client's byte stream; a child task reads
// whatever comes back (the kernel keeps the transcript on the endpoint).
func rawClientTask(idx int, spec ServiceSpec, c ClientSpec) func() {
	return func() {
		network, addr := splitAddr(spec.Address)
		if c.Wait != "" {
			awaitTriggers(c.Wait, network, addr)
		}
		if c.StartUs > 0 {
			sim.Sleep(time.Duration(c.StartUs) * time.Microsecond)
		} else if c.Wait == "" {
			sim.Await(sim.Cond{Kind: sim.CondBound, S1: network, S2: addr})
		}
		ep, err := sim.Dial(network, addr)
		if err != nil {
			sim.Rec("client.dialfail", sf("%d", idx))
			return
		}
		sim.Rec("client.dial", sf(`{"client":%d,"conn":%d}`, idx, sim.ConnID(ep)))
		if c.ReadPolicy != 0 {
			sim.SetReadPolicy(ep, c.ReadPolicy)
		}
		if !c.NoRead {
			sim.Go(sf("reader%d", idx), func() {
				buf := make([]byte, 8192)
				for {
					_, err := ep.Read(buf)
					if err != nil {
						return
					}
				}
			})
		}
		// the writer is a child task: a stalled exchange (both sides blocked in
		// write) must not keep this client from going away at quiescence
		sim.Go(sf("writer%d", idx), func() {
			stream := c.stream()
			off := 0
			for i := 0; off < len(stream); i++ {
				n := len(stream) - off
				if i < len(c.Cuts) && c.Cuts[i] > 0 && c.Cuts[i] < n {
					n = c.Cuts[i]
				}
				if _, err := ep.Write(stream[off : off+n]); err != nil {
					sim.Rec("client.writefail", sf("%d", idx))
					return
				}
				off += n
				if i < len(c.PauseUs) && c.PauseUs[i] > 0 {
					sim.Sleep(time.Duration(c.PauseUs[i]) * time.Microsecond)
				}
			}
			switch c.End {
			case "close-now":
				ep.Close()
			case "abort":
				ep.Abort()
			}
		})
		// every client is gone after the first quiescence at the latest
		if c.HoldUs > 0 {
			sim.Sleep(time.Duration(c.HoldUs) * time.Microsecond)
		} else {
			sim.Await(sim.Cond{Kind: sim.CondQuiescent})
			for q := 1; q < c.QuietPoints; q++ {
				sim.Await(sim.Cond{Kind: sim.CondQuiescent})
			}
		}
		if c.End == "abort-quiet" || c.End == "abort" {
			ep.Abort()
		} else {
			ep.Close()
		}
		sim.Rec("client.end", sf("%d", idx))
	}
}

// awaitTriggers blocks until each trigger of the comma separated list has
// fired, in order:
//
//	bound            a listener is bound to the address
//	acceptblocked    a task is blocked in Accept on it
//	acceptcalls:+N   N more Accept calls than when the wait started
//	accepted:+N      N more accepted connections
//	dialed:+N        N more dialled connections
//	ev:KIND:N        at least N log events of that kind (absolute)
//	sleep:US         simulated pause
//	quiescent        nothing runnable, no event pending
func awaitTriggers(list, network, addr string) {
	for _, tr := range strings.Split(list, ",") {
		parts := strings.Split(tr, ":")
		num := func(i int) (int, bool) {
			if i >= len(parts) {
				return 1, false
			}
			rel := strings.HasPrefix(parts[i], "+")
			return atoi(strings.TrimPrefix(parts[i], "+")), rel
		}
		counting := func(kind sim.CondKind) {
			n, rel := num(1)
			c := sim.Cond{Kind: kind, S1: network, S2: addr}
			if rel {
				n += sim.Count(c)
			}
			c.N = n
			sim.Await(c)
		}
		switch parts[0] {
		case "", "none":
		case "bound":
			sim.Await(sim.Cond{Kind: sim.CondBound, S1: network, S2: addr})
		case "acceptblocked":
			sim.Await(sim.Cond{Kind: sim.CondAcceptBlocked, S1: network, S2: addr})
		case "acceptcalls":
			counting(sim.CondAcceptCalls)
		case "accepted":
			counting(sim.CondAccepted)
		case "dialed":
			counting(sim.CondDialed)
		case "ev":
			n, _ := num(2)
			sim.Await(sim.Cond{Kind: sim.CondLogged, S1: parts[1], N: n})
		case "sleep":
			n, _ := num(1)
			sim.Sleep(time.Duration(n) * time.Microsecond)
		case "quiescent":
			sim.Await(sim.Cond{Kind: sim.CondQuiescent})
		default:
			panic("unknown trigger " + tr)
		}
	}
}
