// Package props holds, per property, the scenario generator (a pure function
// of the run seed), the workload run on the simulator, and the oracle that
// judges the recorded history against a reference model written from the
// property statement.
package props

import (
	"context"
	"encoding/json"
	"net"
	"runtime/debug"
	"sort"
	"strings"
	"testing"
	"testing/synctest"
	"time"

	"github.com/varlink/go/varlink"
	"github.com/varlink/go/varlink/simhook"

	"verifharness/sim"
)

// Scenario is one generated case. It must be JSON-serialisable: a replay
// file stores it verbatim.
type Scenario interface {
	Cfg() sim.Config
	// Setup runs on the kernel goroutine inside the bubble, before Run.
	Setup(k *sim.Kernel)
	// Check evaluates the oracles over the finished run (before drain).
	Check(k *sim.Kernel) []sim.Violation
	// PostDrain may add violations that depend on what was left after the drain.
	PostDrain(k *sim.Kernel, left []string) []sim.Violation
	// NonTrivial says whether the run made the progress the property is about.
	NonTrivial(k *sim.Kernel) bool
	// Shrinks proposes simpler scenarios (minimisation).
	Shrinks() []Scenario
}

// Property binds an id to its generator.
type Property struct {
	ID     string
	Gen    func(seed uint64, tier string) Scenario
	Decode func(raw json.RawMessage) (Scenario, error)
}

var registry = map[string]*Property{}

func register(p *Property) { registry[p.ID] = p }

// Lookup finds a property.
func Lookup(id string) *Property { return registry[id] }

// IDs lists the registered property ids.
func IDs() []string {
	var out []string
	for id := range registry {
		out = append(out, id)
	}
	sort.Strings(out)
	return out
}

// RunResult is what one simulated run reports.
type RunResult struct {
	Prop        string            `json:"prop"`
	Seed        uint64            `json:"seed"`
	Steps       uint64            `json:"steps"`
	SimTimeNs   int64             `json:"sim_time_ns"`
	WallUs      int64             `json:"wall_us"`
	TraceHash   string            `json:"trace_hash"`
	Signature   string            `json:"signature"`
	NonTrivial  bool              `json:"nontrivial"`
	NonDefault  int               `json:"nondefault"`
	Switches    int               `json:"switches"`
	StopReason  string            `json:"stop"`
	Violations  []sim.Violation   `json:"violations,omitempty"`
	Counters    map[string]int    `json:"counters"`
	Sites       []string          `json:"sites,omitempty"`
	SwitchPairs []string          `json:"switch_pairs,omitempty"`
	Stuck       []string          `json:"stuck,omitempty"`
	Left        []string          `json:"left,omitempty"`
	Leaked      bool              `json:"leaked,omitempty"`
	HarnessErr  string            `json:"harness_err,omitempty"`
	Tape        []uint32          `json:"tape,omitempty"`
	Scenario    json.RawMessage   `json:"scenario,omitempty"`
	Trace       []string          `json:"trace,omitempty"`
	Log         []sim.Event       `json:"log,omitempty"`
	Extra       map[string]string `json:"extra,omitempty"`
}

// RunOpts selects what a run records.
type RunOpts struct {
	Tape      []uint32
	Replay    bool
	KeepTrace bool
	KeepSites bool
}

// The seams are installed once, before any goroutine exists: the hook object
// finds the current run through the calling task.
func init() {
	simhook.H = sim.HooksFor(nil)
	varlink.VerifListen = simListen
}

func simListen(ctx context.Context, network, address string) (net.Listener, error) {
	switch network {
	case "tcp", "tcp4", "tcp6", "unix", "unixpacket":
	default:
		// what net.ListenConfig.Listen answers for anything else
		return nil, &net.OpError{Op: "listen", Net: network, Err: net.UnknownNetworkError(network)}
	}
	return sim.Listen(network, address)
}

// RunOne executes one scenario in a fresh bubble.
//
// The result is stored through res while still inside the bubble: when the
// race detector has reported something during the run, synctest.Test ends the
// calling test with FailNow (runtime.Goexit) and a return value would be lost.
func RunOne(t *testing.T, prop string, seed uint64, sc Scenario, o RunOpts, res *RunResult) {
	*res = RunResult{}
	res.Prop = prop
	res.Seed = seed
	raw, err := json.Marshal(sc)
	if err != nil {
		res.HarnessErr = "marshal scenario: " + err.Error()
		return
	}
	res.Scenario = raw
	wall := time.Now()
	defer func() {
		res.WallUs = time.Since(wall).Microseconds()
		if r := recover(); r != nil {
			msg := sp(r)
			if strings.Contains(msg, "deadlock") && strings.Contains(msg, "bubble") {
				res.Leaked = true
				return
			}
			res.HarnessErr = sf("panic in harness: %v\n%s", r, debug.Stack())
		}
	}()
	simhook.ResetPools()
	synctest.Test(t, func(t *testing.T) {
		k := sim.New(sc.Cfg(), seed, o.Tape, o.Replay)
		k.KeepTrace = o.KeepTrace
		sc.Setup(k)
		k.Run()
		res.Steps = k.Steps()
		res.SimTimeNs = int64(k.Elapsed())
		res.StopReason = k.StopReason()
		res.NonTrivial = sc.NonTrivial(k)
		viol := append([]sim.Violation{}, k.Viol...)
		if k.StopReason() != "step-cap" && k.StopReason() != "panic" {
			viol = append(viol, sc.Check(k)...)
		}
		if k.Livelock {
			viol = append(viol, sim.Violation{Clause: "progress", Key: "livelock " + k.SpinTask,
				Detail: sf("the run reached the step cap (%d steps) and in its last %d steps no byte moved, nothing was recorded, no connection was made or ended and the simulated clock stood still at %v: task %q spins (last seen at %s)", k.Steps(), sim.LivelockWindow, k.Elapsed(), k.SpinTask, k.SpinSite)})
		}
		left := k.Drain()
		viol = append(viol, sc.PostDrain(k, left)...)
		if f, ok := sc.(interface {
			Forgive(k *sim.Kernel, v sim.Violation) bool
		}); ok {
			kept := viol[:0]
			for _, v := range viol {
				if !f.Forgive(k, v) {
					kept = append(kept, v)
				}
			}
			viol = kept
		}
		res.Violations = viol
		res.Left = left
		res.Stuck = k.Stuck
		res.TraceHash = k.TraceHash()
		res.Signature = k.Signature()
		res.NonDefault = k.NonDefault()
		res.Switches = k.Switches()
		res.Counters = k.Counters
		if pr, ok := sc.(interface {
			Probes(k *sim.Kernel) map[string]int
		}); ok {
			for name, n := range pr.Probes(k) {
				res.Counters["probe."+name] += n
			}
		}
		res.Tape = k.TapeOut
		if o.KeepSites {
			res.Sites = k.Sites()
			res.SwitchPairs = k.DistinctSwitchPairs()
		}
		if o.KeepTrace || len(viol) > 0 {
			res.Trace = append([]string{}, k.Trace()...)
			res.Log = k.Log
		}
	})
	return
}

// deeper scales generator bounds with the tier: the thorough tier explores
// larger scenarios (more clients, calls, operations, frames), not only more of them.
func deeper(tier string) int {
	if tier == "thorough" {
		return 2
	}
	return 1
}
