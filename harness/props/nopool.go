package props

import "verifharness/sim"

// Pool-free formatting for task context; see sim/nopool.go for the reason.

func mustJSON(v interface{}) string             { return sim.JSON(v) }
func sf(format string, a ...interface{}) string { return sim.Sf(format, a...) }
func sp(arg interface{}) string                 { return sim.Sp(arg) }
func atoi(s string) int                         { return sim.Atoi(s) }
