package props

import (
	"bytes"
	"context"
	"encoding/json"
	"errors"
	"fmt"
	"io"
	"net"
	"os"
	"strings"
	"syscall"
	"time"

	"github.com/varlink/go/varlink"

	"verifharness/sim"
)

// StreamScenario is the shape of the byte-stream properties (C17, C18): a
// consumer performs a generated sequence of context-taking operations
// (ReadBytes, Read, Write) on a varlink.ReadWriterContext — obtained on the
// client side through Connection.Upgrade (over a simulated stream or over the
// real PipeCon on simulated stdio pipe ends) or on the service side as
// Call.Conn inside a handler — while a scripted peer writes a known byte
// stream in generated pieces and contexts are cancelled / expire at generated
// instants.
type StreamScenario struct {
	Prop   string     `json:"prop"`
	Config sim.Config `json:"config"`
	// Side: "client" | "handler"
	Side string `json:"side"`
	// Transport: "stream" | "bridge" (client side only)
	Transport string `json:"transport"`
	// First is the frame (without NUL) the consumer side's varlink layer eats
	// before the operations start: the reply to Upgrade (client side) or the
	// upgrade call (handler side).
	First string `json:"first"`
	// Stream is what the peer sends after First+NUL.
	Stream []byte `json:"stream"`
	// Peer is the peer's script; its writes send First+NUL+Stream in order.
	Peer []PeerAct  `json:"peer"`
	Ops  []StreamOp `json:"ops"`
	// Sink: the peer consumes what the consumer writes ("" = from the start, "never", or a trigger list).
	Sink string `json:"sink,omitempty"`
	// PeerEnd: "" (stays), "close" / "abort" after everything went quiet;
	// "close-early": an orderly close as soon as the peer has written everything -
	// what it wrote is still the consumer's to read, whatever happens to the
	// consumer's own writes meanwhile (a write to a peer that is gone fails).
	PeerEnd string `json:"peer_end,omitempty"`
	// UpgradeDeadlineUs > 0 (client side): the Upgrade exchange runs under a
	// context with this deadline; the operations afterwards use their own contexts.
	UpgradeDeadlineUs int `json:"upgrade_deadline_us,omitempty"`
	// UpgradeCtxEnds (client side): Upgrade runs under a context of its own that is
	// cancelled as soon as it has returned; the receive function gets a live one.
	UpgradeCtxEnds bool `json:"upgrade_ctx_ends,omitempty"`
	// Duplex: the write operations run in a second task, concurrently with the
	// reads (ctxio allows a Write concurrent with a Read / ReadBytes).
	Duplex bool `json:"duplex,omitempty"`

	cancelServe func()
}

// PeerAct is one step of the peer.
type PeerAct struct {
	// Op: write (the next N bytes of its stream) | sleep | await
	Op      string `json:"op"`
	N       int    `json:"n,omitempty"`
	Us      int    `json:"us,omitempty"`
	Trigger string `json:"trigger,omitempty"`
}

// CtxSpec says which context an operation gets.
type CtxSpec struct {
	// Mode: "" live | cancel | deadline | precancel | servecancel (handler side: the serving context is cancelled)
	Mode string `json:"mode,omitempty"`
	// Us: deadline: duration from creation; cancel: pause between trigger and cancel.
	Us int `json:"us,omitempty"`
	// Trigger awaited by the canceller (after the operation's start was logged) before the pause.
	Trigger string `json:"trigger,omitempty"`
	// FarUs > 0 (cancel, precancel): the context also carries a deadline, that far
	// away; it is cancelled long before (context.WithTimeout + cancel()).
	FarUs int `json:"far_us,omitempty"`
	// Edge (deadline): the operation is started exactly when the deadline passes.
	Edge bool `json:"edge,omitempty"`
	// Cause (cancel, precancel): a standard context cancelled with a cause
	// (context.WithCancelCause): the operation still reports a context error.
	Cause bool `json:"cause,omitempty"`
}

// StreamOp is one consumer operation.
type StreamOp struct {
	// Kind: frame (ReadBytes(0)) | raw (Read into N bytes) | write (Data) |
	// xsend / xrecv / xcall (client side only: Connection.Send, the receive
	// function it returned, Connection.Call — judged for cancellation only)
	Kind string  `json:"kind"`
	N    int     `json:"n,omitempty"`
	Data []byte  `json:"data,omitempty"`
	Ctx  CtxSpec `json:"ctx"`
	// PauseUs: simulated pause before the operation.
	PauseUs int `json:"pause_us,omitempty"`
}

func (s *StreamScenario) Cfg() sim.Config { return s.Config }

const streamAddr = "unix:@stream"

type opDone struct {
	I    int    `json:"i"`
	Err  string `json:"err"`
	N    int    `json:"n"`
	Data []byte `json:"data,omitempty"`
}

// errClass puts an error into the classes the oracles distinguish.
func errClass(err error) string {
	switch {
	case err == nil:
		return "nil"
	case errors.Is(err, context.Canceled):
		return "canceled"
	case errors.Is(err, context.DeadlineExceeded):
		return "deadline"
	case errors.Is(err, os.ErrDeadlineExceeded):
		return "timeout"
	case errors.Is(err, io.EOF), errors.Is(err, io.ErrUnexpectedEOF):
		return "eof"
	case errors.Is(err, net.ErrClosed):
		return "closed"
	case errors.Is(err, syscall.ECONNRESET):
		return "reset"
	case errors.Is(err, syscall.EPIPE):
		return "epipe"
	}
	var ne net.Error
	if errors.As(err, &ne) && ne.Timeout() {
		return "timeout"
	}
	return "other: " + err.Error()
}

// runOps performs the operations on rw. serveCancel cancels the serving context (handler side).
func (s *StreamScenario) runOps(rw varlink.ReadWriterContext, base context.Context, serveCancel func(), conn *varlink.Connection) {
	var recv func(context.Context, interface{}) (uint64, error)
	// begin creates the operation's context, records its start and starts its canceller
	begin := func(i int, op StreamOp) context.Context {
		ctx := base
		var dctx *sim.DeadlineCtx
		var cancelCause func()
		switch op.Ctx.Mode {
		case "cancel", "precancel":
			if op.Ctx.Cause {
				cctx, cancel := context.WithCancelCause(context.Background())
				ctx, cancelCause = cctx, func() { cancel(errors.New("the caller lost interest")) }
				break
			}
			if op.Ctx.FarUs > 0 {
				sim.Rec("ctx.deadline", sf(`{"i":%d,"us":%d}`, i, op.Ctx.FarUs))
			}
			dctx = sim.NewCtx(time.Duration(op.Ctx.FarUs) * time.Microsecond)
			ctx = dctx
		case "deadline":
			sim.Rec("ctx.deadline", sf(`{"i":%d,"us":%d}`, i, op.Ctx.Us))
			dctx = sim.NewCtx(time.Duration(op.Ctx.Us) * time.Microsecond)
			ctx = dctx
			if op.Ctx.Edge {
				// the operation starts at the very instant of the deadline, possibly
				// before the context has been told
				sim.Sleep(time.Duration(op.Ctx.Us) * time.Microsecond)
			}
		}
		if op.Ctx.Mode == "precancel" {
			sim.Rec("cancel.fire", sp(i))
			if cancelCause != nil {
				cancelCause()
			} else {
				dctx.Cancel()
			}
		}
		sim.Rec("op.start", sp(i))
		if op.Ctx.Mode == "cancel" || op.Ctx.Mode == "servecancel" {
			sim.Go("canceller", func() {
				awaitTriggers(op.Ctx.Trigger, "", "")
				if op.Ctx.Us > 0 {
					sim.Sleep(time.Duration(op.Ctx.Us) * time.Microsecond)
				}
				sim.Rec("cancel.fire", sp(i))
				if op.Ctx.Mode == "servecancel" {
					if serveCancel != nil {
						serveCancel()
					}
				} else if cancelCause != nil {
					cancelCause()
				} else {
					dctx.Cancel()
				}
			})
		}
		return ctx
	}
	if s.Duplex {
		sim.Go("duplex-writer", func() {
			for i, op := range s.Ops {
				if op.Kind != "write" {
					continue
				}
				if op.PauseUs > 0 {
					sim.Sleep(time.Duration(op.PauseUs) * time.Microsecond)
				}
				ctx := begin(i, op)
				n, err := rw.Write(ctx, op.Data)
				sim.Rec("op.done", mustJSON(opDone{I: i, Err: errClass(err), N: n}))
			}
		})
	}
	for i, op := range s.Ops {
		if s.Duplex && op.Kind == "write" {
			continue
		}
		if op.PauseUs > 0 {
			sim.Sleep(time.Duration(op.PauseUs) * time.Microsecond)
		}
		ctx := begin(i, op)
		var d opDone
		d.I = i
		switch op.Kind {
		case "frame":
			b, err := rw.ReadBytes(ctx, 0)
			d.Err, d.N, d.Data = errClass(err), len(b), b
		case "raw":
			buf := make([]byte, op.N)
			n, err := rw.Read(ctx, buf)
			d.Err, d.N, d.Data = errClass(err), n, buf[:n]
		case "write":
			n, err := rw.Write(ctx, op.Data)
			d.Err, d.N = errClass(err), n
		case "xsend":
			r, err := conn.Send(ctx, "a.b.M", json.RawMessage(`{"n":1}`), 0)
			if err == nil {
				recv = r
			}
			d.Err = apiErrClass(err)
		case "xrecv":
			if recv == nil {
				d.Err = "skipped"
				break
			}
			var out json.RawMessage
			_, err := recv(ctx, &out)
			d.Err = apiErrClass(err)
		case "xcall":
			var out json.RawMessage
			d.Err = apiErrClass(conn.Call(ctx, "a.b.M", json.RawMessage(`{"n":2}`), &out))
		}
		sim.Rec("op.done", mustJSON(d))
	}
	sim.Rec("consumer.done", "")
}

// apiErrClass: like errClass, but a reply that arrived and could not be decoded
// (the stream is not made of reply frames) or was a remote error counts as "nil":
// these operations are only judged for what cancellation does to them.
func apiErrClass(err error) string {
	c := errClass(err)
	if len(c) > 5 && c[:5] == "other" {
		return "nil"
	}
	return c
}

func (s *StreamScenario) apiOps() bool {
	for _, op := range s.Ops {
		if len(op.Kind) > 0 && op.Kind[0] == 'x' {
			return true
		}
	}
	return false
}

type streamIface struct{ s *StreamScenario }

func (d *streamIface) VarlinkGetName() string        { return "a.b" }
func (d *streamIface) VarlinkGetDescription() string { return "interface a.b" }
func (d *streamIface) VarlinkDispatch(ctx context.Context, c varlink.Call, m string) error {
	sim.Rec("consumer.task", "")
	d.s.runOps(c.Conn, ctx, d.s.serveCancel, nil)
	// keep the connection until everything went quiet, then end it
	sim.Await(sim.Cond{Kind: sim.CondQuiescent})
	return errors.New("done")
}

func (s *StreamScenario) peerBytes() []byte {
	b := append([]byte(s.First), 0)
	return append(b, s.Stream...)
}

// peerTask plays the peer on ep. eatFirst: first read one frame from the consumer side (the Upgrade call).
func (s *StreamScenario) peerTask(ep *sim.Endpoint, eatFirst bool) {
	if eatFirst {
		var one [1]byte
		for {
			n, err := ep.Read(one[:])
			if err != nil {
				sim.Rec("peer.readfail", "")
				return
			}
			if n == 1 && one[0] == 0 {
				break
			}
		}
	}
	if s.Sink != "never" {
		sim.Go("sink", func() {
			if s.Sink != "" {
				awaitTriggers(s.Sink, "", "")
			}
			sim.Rec("sink.start", "")
			buf := make([]byte, 4096)
			for {
				if _, err := ep.Read(buf); err != nil {
					return
				}
			}
		})
	}
	all := s.peerBytes()
	off := 0
	for _, a := range s.Peer {
		switch a.Op {
		case "sleep":
			sim.Sleep(time.Duration(a.Us) * time.Microsecond)
		case "await":
			awaitTriggers(a.Trigger, "", "")
		case "write":
			n := a.N
			if n <= 0 || off+n > len(all) {
				n = len(all) - off
			}
			if n == 0 {
				continue
			}
			sim.Rec("peer.write.start", sp(off))
			_, err := ep.Write(all[off : off+n])
			off += n
			sim.Rec("peer.write", sf(`{"end":%d,"err":%q}`, off, errStr(err)))
			if err != nil {
				return
			}
		}
	}
	if off < len(all) {
		sim.Rec("peer.write.start", sp(off))
		_, err := ep.Write(all[off:])
		sim.Rec("peer.write", sf(`{"end":%d,"err":%q}`, len(all), errStr(err)))
	}
	sim.Rec("peer.done", "")
	if s.PeerEnd == "close-early" {
		ep.Close()
		sim.Rec("peer.closed", "")
		return
	}
	sim.Await(sim.Cond{Kind: sim.CondQuiescent})
	switch s.PeerEnd {
	case "close":
		ep.Close()
	case "abort":
		ep.Abort()
	}
}

func (s *StreamScenario) serveCancel() {
	if s.cancelServe != nil {
		s.cancelServe()
	}
}

func (s *StreamScenario) Setup(k *sim.Kernel) {
	switch s.Side {
	case "client":
		c := k.NewPipePair()
		k.Spawn("consumer", func() {
			sim.Rec("consumer.task", "")
			var conn *varlink.Connection
			if s.Transport == "bridge" {
				conn = varlink.VerifNewBridgeConnection(sim.ReadHalf{E: c.Client}, sim.WriteHalf{E: c.Client})
			} else {
				conn = varlink.VerifNewConnection(c.Client)
			}
			ctx := context.Background()
			uctx := context.Context(ctx)
			failKind := "upgrade.fail"
			if s.UpgradeDeadlineUs > 0 {
				uctx = sim.NewCtx(time.Duration(s.UpgradeDeadlineUs) * time.Microsecond)
				failKind = "upgrade.timedout" // its own deadline may expire: no finding
			}
			sctx := uctx
			var ends *sim.DeadlineCtx
			if s.UpgradeCtxEnds {
				ends = sim.NewCtx(0)
				sctx = ends
			}
			recv, err := conn.Upgrade(sctx, "a.b.Up", json.RawMessage(`{"x":1}`))
			if ends != nil {
				ends.Cancel()
			}
			if err != nil {
				sim.Rec(failKind, err.Error())
				return
			}
			var out json.RawMessage
			_, rw, err := recv(uctx, &out)
			if err != nil {
				sim.Rec(failKind, err.Error())
				return
			}
			sim.Rec("upgraded", "")
			s.runOps(rw, ctx, nil, conn)
		})
		k.Spawn("peer", func() { s.peerTask(c.Server, true) })
	case "handler":
		svc, err := varlink.NewService("v", "p", "1", "u")
		if err != nil {
			panic(err)
		}
		if err := svc.RegisterInterface(&streamIface{s}); err != nil {
			panic(err)
		}
		ctx, cancel := context.WithCancel(context.Background())
		s.cancelServe = cancel
		k.OnDrain(cancel)
		k.Spawn("serve", func() {
			err := svc.Listen(ctx, streamAddr, 0)
			sim.Rec("serve.return", describeErr(err))
		})
		k.Spawn("peer", func() {
			network, addr := splitAddr(streamAddr)
			sim.Await(sim.Cond{Kind: sim.CondBound, S1: network, S2: addr})
			ep, err := sim.Dial(network, addr)
			if err != nil {
				sim.Rec("peer.dialfail", "")
				return
			}
			s.peerTask(ep, false)
		})
		k.Spawn("janitor", func() {
			for i := 0; i < 3; i++ {
				sim.Await(sim.Cond{Kind: sim.CondQuiescent})
			}
			svc.Shutdown()
		})
	default:
		panic("bad side " + s.Side)
	}
}

func (s *StreamScenario) PostDrain(k *sim.Kernel, left []string) []sim.Violation { return nil }

func (s *StreamScenario) NonTrivial(k *sim.Kernel) bool {
	for _, e := range k.Log {
		if e.Kind == "op.done" {
			return true
		}
	}
	return false
}

type opObs struct {
	started  bool
	startSeq uint64
	startAt  time.Duration
	done     bool
	doneSeq  uint64
	doneAt   time.Duration
	res      opDone
	fired    bool
	fireSeq  uint64
	fireAt   time.Duration
}

func (s *StreamScenario) Check(k *sim.Kernel) []sim.Violation {
	var out []sim.Violation
	ops := make([]opObs, len(s.Ops))
	type pw struct {
		startSeq, endSeq uint64
		from, end        int
		done             bool
	}
	var writes []pw
	consumerTask := ""
	consumerDone := false
	peerDone := false
	upgraded := s.Side == "handler"
	for _, e := range k.Log {
		switch e.Kind {
		case "consumer.task":
			consumerTask = e.Task
			if s.Side == "handler" {
				upgraded = true
			}
		case "upgraded":
			upgraded = true
		case "upgrade.fail":
			out = append(out, vio("upgrade", "upgrade-failed", "the Upgrade exchange failed: %s", e.Data))
		case "op.start":
			var i int
			fmt.Sscan(e.Data, &i)
			ops[i].started, ops[i].startSeq, ops[i].startAt = true, e.Seq, e.At
		case "op.done":
			var d opDone
			json.Unmarshal([]byte(e.Data), &d)
			ops[d.I].done, ops[d.I].doneSeq, ops[d.I].doneAt, ops[d.I].res = true, e.Seq, e.At, d
		case "cancel.fire":
			var i int
			fmt.Sscan(e.Data, &i)
			ops[i].fired, ops[i].fireSeq, ops[i].fireAt = true, e.Seq, e.At
		case "ctx.deadline":
			var d struct{ I, Us int }
			json.Unmarshal([]byte(e.Data), &d)
			ops[d.I].fired, ops[d.I].fireSeq, ops[d.I].fireAt = true, ^uint64(0), e.At+time.Duration(d.Us)*time.Microsecond
		case "peer.write.start":
			var from int
			fmt.Sscan(e.Data, &from)
			writes = append(writes, pw{startSeq: e.Seq, from: from})
		case "peer.write":
			var d struct{ End int }
			json.Unmarshal([]byte(e.Data), &d)
			w := &writes[len(writes)-1]
			w.done, w.endSeq, w.end = true, e.Seq, d.End
		case "peer.done":
			peerDone = true
		case "consumer.done":
			consumerDone = true
		}
	}
	if !upgraded {
		return out
	}
	skip := len(s.First) + 1
	S := s.Stream
	// writtenBy(seq): how many bytes of S the peer may have handed to the transport by that sequence number
	writtenBy := func(seq uint64) int {
		n := 0
		for _, w := range writes {
			if w.startSeq < seq {
				end := skip + len(S)
				if w.done {
					end = w.end
				}
				if end-skip > n {
					n = end - skip
				}
			}
		}
		return n
	}
	quiet := k.StopReason() == "quiescent"
	// ---- reads: the consumer sees the peer's stream exactly once and in order
	type seg struct {
		data  []byte
		limit int // the gap before this segment ends at or before this position of S (-1: no gap allowed)
	}
	segs := []seg{{limit: -1}}
	lossy := false
	sawEOF := false
	for i, op := range s.Ops {
		o := ops[i]
		if !o.done {
			break
		}
		if op.Kind == "write" {
			continue
		}
		if o.res.Err == "nil" {
			segs[len(segs)-1].data = append(segs[len(segs)-1].data, o.res.Data...)
			if op.Kind == "frame" && (len(o.res.Data) == 0 || o.res.Data[len(o.res.Data)-1] != 0) {
				out = append(out, vio("stream", "frame-without-delimiter", "op %d: ReadBytes returned %d bytes not ending in the delimiter", i, len(o.res.Data)))
			}
			if op.Kind == "raw" && (o.res.N == 0 && op.N > 0) {
				out = append(out, vio("stream", "empty-read", "op %d: Read returned 0 bytes and no error", i))
			}
			continue
		}
		if o.res.Err == "eof" && !s.apiOps() {
			// the end of the stream is reported only when the peer has ended it
			var cep *sim.Endpoint
			for _, c := range k.Conns {
				cep = c.Server
				if s.Side == "client" {
					cep = c.Client
				}
			}
			if cep != nil {
				if pe := cep.Peer(); pe != nil && !cep.Closed && (!pe.Closed || pe.CloseSeq > o.doneSeq) {
					out = append(out, vio("stream", "eof-before-end-of-stream", "op %d (%s) reported the end of the stream at seq %d, but the peer had not closed its end (closed: %v, at seq %d); %d bytes of the peer's stream had been delivered", i, op.Kind, o.doneSeq, pe.Closed, pe.CloseSeq, len(segs[0].data)))
				}
			}
		}
		if o.res.Err == "eof" {
			// what a read returns together with the end of the stream is part of the stream
			segs[len(segs)-1].data = append(segs[len(segs)-1].data, o.res.Data...)
			sawEOF = true
		}
		if o.res.Err != "canceled" && o.res.Err != "deadline" && o.res.Err != "timeout" {
			if got := len(segs[0].data); s.PeerEnd == "close-early" && !s.apiOps() && !lossy && peerDone && o.res.Err != "eof" && op.Ctx.Mode == "" && got < len(S) {
				out = append(out, vio("stream", "read-failed-with-bytes-pending", "op %d (%s, live context) failed with %q although the peer had written %d bytes and closed in an orderly way and only %d of them had been delivered: a failed write of the consumer must not cost it what it has received", i, op.Kind, o.res.Err, len(S), got))
			}
			break // the stream ended (EOF, reset): nothing further to judge
		}
		// a cancelled read may have consumed bytes: whatever the peer had written by the time it returned
		lossy = true
		segs = append(segs, seg{limit: writtenBy(o.doneSeq)})
	}
	var match func(j, pos int) bool
	match = func(j, pos int) bool {
		if j == len(segs) {
			return true
		}
		sg := segs[j]
		try := func(p int) bool {
			if p+len(sg.data) > len(S) || !bytes.Equal(S[p:p+len(sg.data)], sg.data) {
				return false
			}
			return match(j+1, p+len(sg.data))
		}
		if sg.limit < 0 {
			return try(pos)
		}
		if len(sg.data) == 0 {
			return match(j+1, pos)
		}
		for p := pos; p <= sg.limit && p <= len(S); p++ {
			if try(p) {
				return true
			}
		}
		return false
	}
	api := s.apiOps()
	if !api && !lossy && sawEOF && s.PeerEnd == "close" && peerDone && len(segs) == 1 && len(segs[0].data) < len(S) && bytes.Equal(S[:len(segs[0].data)], segs[0].data) {
		out = append(out, vio("stream", "tail-lost-at-eof", "the peer wrote %d bytes and closed in an orderly way; the consumer read up to the end of the stream but was given only %d of them: the last %d bytes were lost", len(S), len(segs[0].data), len(S)-len(segs[0].data)))
	}
	if !api && !match(0, 0) {
		got := 0
		for _, sg := range segs {
			got += len(sg.data)
		}
		key := "bytes-lost-or-reordered"
		if !lossy {
			key = "not-the-next-bytes"
		}
		detail := s.describeMismatch(ops)
		out = append(out, vio("stream", key, "the bytes returned by the consumer's reads (%d bytes in %d runs separated by failed reads) are not the peer's stream in order and without loss/duplication%s: %s", got, len(segs), map[bool]string{true: " (bytes consumed by a cancelled read may be missing, nothing sent after it returned)", false: ""}[lossy], detail))
	}
	// ---- a read that can be satisfied returns
	pos := 0
	for i, op := range s.Ops {
		o := ops[i]
		if o.done {
			if op.Kind != "write" && o.res.Err == "nil" {
				pos += len(o.res.Data)
			}
			continue
		}
		if !o.started || !quiet || lossy || !peerDone || api {
			break
		}
		switch op.Kind {
		case "frame":
			if pos <= len(S) && bytes.IndexByte(S[min(pos, len(S)):], 0) >= 0 && op.Ctx.Mode == "" {
				out = append(out, vio("stream", "read-stuck frame", "op %d (ReadBytes) has not returned at quiescence although the peer sent a complete frame after stream position %d (%d bytes sent in total)", i, pos, len(S)))
			}
		case "raw":
			if pos < len(S) && op.Ctx.Mode == "" {
				out = append(out, vio("stream", "read-stuck raw", "op %d (Read into %d bytes) has not returned at quiescence although %d bytes the peer sent after stream position %d were never delivered to the consumer", i, op.N, len(S)-pos, pos))
			}
		}
		break
	}
	// ---- writes: what the consumer handed to the transport
	if !api {
		out = append(out, s.checkWrites(k, ops)...)
	}
	// ---- cancellation: prompt return, right error, live operations do not fail
	for i, op := range s.Ops {
		o := ops[i]
		if !o.started {
			break
		}
		if op.Ctx.Mode == "" {
			anyServeCancel := s.Duplex && prevServeCancel(s.Ops, len(s.Ops))
			if o.done && !api && o.res.Err != "nil" && o.res.Err != "eof" && o.res.Err != "closed" && o.res.Err != "reset" && o.res.Err != "epipe" && !prevServeCancel(s.Ops, i) && !anyServeCancel && !(s.PeerEnd != "" && o.doneSeq > 0) {
				out = append(out, vio("live-context", "live-op-failed "+op.Kind+" "+classOnly(o.res.Err), "op %d (%s) had a live context but failed with %q", i, op.Kind, o.res.Err))
			}
			continue
		}
		if !o.fired {
			continue
		}
		due := o.fireAt
		if o.startAt > due {
			due = o.startAt
		}
		if !o.done {
			if quiet || k.Elapsed() > due {
				out = append(out, vio("cancellation", "not-unblocked "+op.Kind+" "+op.Ctx.Mode+" "+s.Transport, "op %d (%s, context %s) was still blocked at the end of the run (simulated time %v) although its context was done at %v", i, op.Kind, op.Ctx.Mode, k.Elapsed(), o.fireAt))
			}
			break
		}
		if o.res.Err != "nil" && o.doneAt > due && (o.fireSeq == ^uint64(0) || o.doneSeq > o.fireSeq) {
			out = append(out, vio("cancellation", "late-return "+op.Kind+" "+op.Ctx.Mode, "op %d (%s, context %s): context done at %v, operation started at %v, returned %q only at %v", i, op.Kind, op.Ctx.Mode, o.fireAt, o.startAt, o.res.Err, o.doneAt))
		}
		switch o.res.Err {
		case "nil", "canceled", "deadline", "timeout":
		case "eof", "closed", "reset", "epipe":
			if s.Duplex && op.Kind == "write" && o.res.Err == "closed" && s.Side == "handler" {
				// the handler (the scenario's own code) has returned and the service
				// closed the connection under the concurrent writer
				break
			}
			if op.Ctx.Mode != "servecancel" && s.PeerEnd == "" {
				out = append(out, vio("cancellation", "wrong-error "+op.Kind, "op %d (%s, context %s) returned %q instead of a context or timeout error", i, op.Kind, op.Ctx.Mode, o.res.Err))
			}
		default:
			out = append(out, vio("cancellation", "wrong-error "+op.Kind, "op %d (%s, context %s) returned %q instead of a context or timeout error", i, op.Kind, op.Ctx.Mode, o.res.Err))
		}
		if op.Ctx.Mode == "servecancel" {
			break // the service ends the connection afterwards
		}
	}
	// ---- nothing left behind
	duplexID := "no-such-task"
	if s.Duplex {
		// helpers of a write that is still blocked (peer not reading) belong to a live operation
		for _, ti := range k.LiveTasks() {
			if ti.Label == "duplex-writer" {
				duplexID = ti.ID + "."
			}
		}
	}
	if quiet && consumerDone && consumerTask != "" {
		for _, ti := range k.LiveTasks() {
			if len(ti.ID) > len(consumerTask) && ti.ID[:len(consumerTask)+1] == consumerTask+"." && ti.Label != "canceller" && ti.Label != "duplex-writer" && !strings.HasPrefix(ti.ID, duplexID) {
				out = append(out, vio("cleanup", "helper-left-behind "+ti.Label, "all operations have returned but task %s (%s) started by one of them is still alive at quiescence (blocked: %q)", ti.ID, ti.Label, ti.Blocked))
				break
			}
		}
	}
	return out
}

func classOnly(e string) string {
	if len(e) > 5 && e[:5] == "other" {
		return "other"
	}
	return e
}

func prevServeCancel(ops []StreamOp, i int) bool {
	for j := 0; j < i; j++ {
		if ops[j].Ctx.Mode == "servecancel" {
			return true
		}
	}
	return false
}

func (s *StreamScenario) describeMismatch(ops []opObs) string {
	var b bytes.Buffer
	pos := 0
	for i, op := range s.Ops {
		o := ops[i]
		if !o.done || op.Kind == "write" {
			continue
		}
		want := []byte{}
		if pos < len(s.Stream) {
			want = s.Stream[pos:min(len(s.Stream), pos+len(o.res.Data))]
		}
		st := "ok"
		if o.res.Err != "nil" {
			st = o.res.Err
		} else if !bytes.Equal(want, o.res.Data) {
			st = sf("MISMATCH at stream position %d: got %q want %q", pos, abbreviate(string(o.res.Data), 24), abbreviate(string(want), 24))
		}
		fmt.Fprintf(&b, "[op %d %s n=%d %s] ", i, op.Kind, o.res.N, st)
		if o.res.Err == "nil" {
			pos += len(o.res.Data)
		}
		if b.Len() > 900 {
			break
		}
	}
	return b.String()
}

// checkWrites: the bytes the consumer's end accepted are the data of its write
// operations in order: all of it for a successful write, a prefix for a failed one.
func (s *StreamScenario) checkWrites(k *sim.Kernel, ops []opObs) []sim.Violation {
	var ep *sim.Endpoint
	for _, c := range k.Conns {
		if s.Side == "client" {
			ep = c.Client
		} else {
			ep = c.Server
		}
	}
	if ep == nil {
		return nil
	}
	tap := ep.Tap
	if s.Side == "client" {
		i := bytes.IndexByte(tap, 0)
		if i < 0 {
			return nil
		}
		tap = tap[i+1:]
	}
	type w struct {
		data  []byte
		exact bool
		idx   int
	}
	var ws []w
	pending := false
	for i, op := range s.Ops {
		if op.Kind != "write" {
			continue
		}
		o := ops[i]
		if !o.started {
			break
		}
		if !o.done {
			ws = append(ws, w{op.Data, false, i})
			pending = true
			break
		}
		ws = append(ws, w{op.Data, o.res.Err == "nil", i})
		if o.res.Err == "nil" && o.res.N != len(op.Data) {
			return []sim.Violation{vio("write", "short-write-without-error", "op %d: Write of %d bytes returned n=%d and no error", i, len(op.Data), o.res.N)}
		}
	}
	_ = pending
	var match func(j, pos int) bool
	match = func(j, pos int) bool {
		if j == len(ws) {
			return pos == len(tap)
		}
		if ws[j].exact {
			d := ws[j].data
			if pos+len(d) > len(tap) || !bytes.Equal(tap[pos:pos+len(d)], d) {
				return false
			}
			return match(j+1, pos+len(d))
		}
		for n := 0; n <= len(ws[j].data) && pos+n <= len(tap); n++ {
			if !bytes.Equal(tap[pos:pos+n], ws[j].data[:n]) {
				break
			}
			if match(j+1, pos+n) {
				return true
			}
		}
		return false
	}
	if !match(0, 0) {
		total := 0
		for _, x := range ws {
			total += len(x.data)
		}
		return []sim.Violation{vio("write", "written-bytes-wrong", "the %d bytes the consumer's end put on the wire are not the data of its %d write operations in order (%d bytes; complete for successful writes, a prefix for failed ones)", len(tap), len(ws), total)}
	}
	return nil
}

func (s *StreamScenario) clone() *StreamScenario {
	b, _ := json.Marshal(s)
	var c StreamScenario
	json.Unmarshal(b, &c)
	return &c
}

func (s *StreamScenario) Shrinks() []Scenario {
	var out []Scenario
	add := func(c *StreamScenario) { out = append(out, c) }
	for i := len(s.Ops) - 1; i >= 0; i-- {
		c := s.clone()
		c.Ops = append(c.Ops[:i], c.Ops[i+1:]...)
		add(c)
	}
	for i := range s.Peer {
		c := s.clone()
		c.Peer = append(c.Peer[:i], c.Peer[i+1:]...)
		add(c)
	}
	if len(s.Stream) > 8 {
		c := s.clone()
		c.Stream = c.Stream[:len(c.Stream)/2]
		add(c)
	}
	for i := range s.Ops {
		if s.Ops[i].Ctx.Mode != "" {
			c := s.clone()
			c.Ops[i].Ctx = CtxSpec{}
			add(c)
		}
		if s.Ops[i].PauseUs != 0 {
			c := s.clone()
			c.Ops[i].PauseUs = 0
			add(c)
		}
	}
	cfgs := []func(*sim.Config) bool{
		func(c *sim.Config) bool { ok := c.YieldDensity != 0; c.YieldDensity = 0; return ok },
		func(c *sim.Config) bool { ok := c.Segmentation != 0; c.Segmentation = 0; return ok },
		func(c *sim.Config) bool { ok := c.ShortReads != 0; c.ShortReads = 0; return ok },
		func(c *sim.Config) bool { ok := c.MaxLatencyUs != 0; c.MaxLatencyUs = 0; return ok },
		func(c *sim.Config) bool { ok := c.PipeCap != 0; c.PipeCap = 0; return ok },
	}
	for _, f := range cfgs {
		c := s.clone()
		if f(&c.Config) {
			add(c)
		}
	}
	return out
}

func decodeStream(raw json.RawMessage) (Scenario, error) {
	var s StreamScenario
	if err := json.Unmarshal(raw, &s); err != nil {
		return nil, err
	}
	return &s, nil
}

// ---------------------------------------------------------------------------
// generation

func init() {
	register(&Property{ID: "C18", Gen: genC18, Decode: decodeStream})
	register(&Property{ID: "C17", Gen: genC17, Decode: decodeEither(decodeStream)})
	raceFamilies["stream"] = decodeStream
}

// genStreamBytes builds a stream of frames and raw payload runs; every byte
// of a payload run is non-zero and depends on its position.
func genStreamBytes(g *Gen, parts int, maxRun int) []byte {
	var b []byte
	ctr := 0
	for p := 0; p < parts; p++ {
		if g.Pct(50) {
			n := 1 + g.IntN(3)
			for i := 0; i < n; i++ {
				ctr++
				b = append(b, sf(`{"parameters":{"i":%d,"pad":%s}}`, ctr, quote(g.BigString(g.IntN(40))))...)
				b = append(b, 0)
			}
		} else {
			n := 1 + g.IntN(maxRun)
			if g.Pct(10) {
				n = 4000 + g.IntN(6000)
			}
			for i := 0; i < n; i++ {
				ctr++
				b = append(b, byte(1+(len(b)*7+ctr)%255))
			}
		}
	}
	return b
}

func genPeerWrites(g *Gen, total int) []PeerAct {
	var acts []PeerAct
	switch g.IntN(4) {
	case 0:
		// everything in one write: the payload arrives with the frame before it
		return []PeerAct{{Op: "write", N: total}}
	case 1:
		off := 0
		for off < total {
			n := 1 + g.IntN(total)
			acts = append(acts, PeerAct{Op: "write", N: n})
			off += n
			if g.Pct(30) {
				acts = append(acts, PeerAct{Op: "sleep", Us: g.IntN(2000)})
			}
		}
	case 2:
		off := 0
		for off < total && len(acts) < 40 {
			n := 1 + g.IntN(40)
			acts = append(acts, PeerAct{Op: "write", N: n})
			off += n
			if g.Pct(20) {
				acts = append(acts, PeerAct{Op: "sleep", Us: g.IntN(500)})
			}
		}
	default:
		acts = append(acts, PeerAct{Op: "write", N: 1 + g.IntN(total)}, PeerAct{Op: "sleep", Us: g.IntN(3000)})
	}
	return acts
}

func genReadOps(g *Gen, n int) []StreamOp {
	var ops []StreamOp
	for i := 0; i < n; i++ {
		if g.Pct(40) {
			ops = append(ops, StreamOp{Kind: "frame"})
		} else {
			ops = append(ops, StreamOp{Kind: "raw", N: []int{1, 2, 3, 7, 16, 100, 512, 4096, 8192}[g.IntN(9)]})
		}
	}
	return ops
}

func genStreamBase(g *Gen, prop string) *StreamScenario {
	s := &StreamScenario{Prop: prop, Config: genConfig(g)}
	s.Config.YieldDensity = g.IntN(3)
	s.Side = g.Pick("client", "handler")
	s.Transport = "stream"
	if s.Side == "client" {
		s.First = `{"parameters":{"ok":true}}`
		if g.Pct(30) {
			s.Transport = "bridge"
		}
		switch g.IntN(12) {
		case 0:
			// whatever flags the reply to the upgrade carries, the payload starts right after it
			s.First = `{"parameters":{"ok":true},"continues":true}`
		case 1:
			s.First = `{"continues":false,"parameters":{}}`
		case 2, 3:
			s.UpgradeCtxEnds = true
		}
	} else {
		s.First = `{"method":"a.b.Up","upgrade":true,"parameters":{"x":1}}`
		if g.IntN(6) == 0 {
			// nobody waits for a reply to the upgrade call: the payload is the handler's all the same
			s.First = `{"method":"a.b.Up","upgrade":true,"oneway":true,"parameters":{"x":1}}`
		}
	}
	return s
}

// genC18Bulk: volume - 17 to 24 MiB of payload behind the upgrade, read in
// 64 KiB pieces (a generator of its own, one run in 3000).
func genC18Bulk(g *Gen, tier string) Scenario {
	s := genStreamBase(g, "C18")
	s.Config = sim.Config{Sched: g.IntN(3), StickPct: 99, PipeCap: []int{0, 65536, 1 << 20}[g.IntN(3)], MaxSteps: 1000000}
	s.UpgradeCtxEnds = false
	block := []byte(g.BigString(60000 + g.IntN(10000)))
	total := (17 + g.IntN(8)) << 20
	for len(s.Stream) < total {
		s.Stream = append(s.Stream, block...)
	}
	s.Stream = append(s.Stream, []byte(g.String(40))...)
	for off, all := 0, len(s.peerBytes()); off < all; {
		n := 1 + g.IntN(1<<20)
		s.Peer = append(s.Peer, PeerAct{Op: "write", N: n})
		off += n
	}
	for i, n := 0, len(s.Stream)/65536+40; i < n; i++ {
		s.Ops = append(s.Ops, StreamOp{Kind: "raw", N: 65536})
	}
	s.PeerEnd = "close"
	return s
}

func genC18(seed uint64, tier string) Scenario {
	if gb := NewGen(seed, 0xC18B); gb.IntN(3000) == 0 || os.Getenv("VERIF_DEV_FORCE_BULK18") != "" {
		return genC18Bulk(gb, tier)
	}
	g := NewGen(seed, 0xC18)
	s := genStreamBase(g, "C18")
	if s.Side == "client" && g.Pct(20) {
		s.UpgradeDeadlineUs = []int{300, 2000, 200000}[g.IntN(3)]
	}
	s.Stream = genStreamBytes(g, 1+g.IntN(5*deeper(tier)), 300)
	s.Peer = genPeerWrites(g, len(s.peerBytes()))
	s.Ops = genReadOps(g, 1+g.IntN(12*deeper(tier)))
	if g.Pct(30) {
		s.PeerEnd = g.Pick("close", "close", "abort")
	}
	// some writes in between: the two directions are independent
	if g.Pct(35) {
		for n := 1 + g.IntN(3); n > 0; n-- {
			i := g.IntN(len(s.Ops) + 1)
			w := StreamOp{Kind: "write", Data: []byte(g.BigString(1 + g.IntN(200))), PauseUs: g.IntN(400)}
			s.Ops = append(s.Ops[:i], append([]StreamOp{w}, s.Ops[i:]...)...)
		}
		s.Duplex = g.Pct(60)
	}
	// a cancelled read now and then: what comes after it is still the stream
	if g.Pct(10) {
		i := g.IntN(len(s.Ops))
		if s.Ops[i].Kind != "write" {
			s.Ops[i].Ctx = CtxSpec{Mode: "cancel", Us: g.IntN(1500)}
		}
	}
	closeEarlyVariant(seed, s)
	return s
}

// closeEarlyVariant: the peer writes everything at once and closes; the consumer
// first writes into the closed connection, then reads (a generator of its own:
// the scenarios of the other seeds stay what they were).
func closeEarlyVariant(seed uint64, s *StreamScenario) {
	g := NewGen(seed, 0xC18E)
	if g.IntN(10) != 0 || s.Duplex || s.UpgradeDeadlineUs > 0 {
		return
	}
	var reads []StreamOp
	for _, op := range s.Ops {
		if op.Kind == "write" || op.Ctx.Mode != "" {
			continue
		}
		op.PauseUs = 0
		reads = append(reads, op)
	}
	if len(reads) == 0 {
		return
	}
	s.PeerEnd = "close-early"
	s.Sink = ""
	s.Peer = []PeerAct{{Op: "write", N: len(s.peerBytes())}}
	w := StreamOp{Kind: "write", Data: []byte(g.BigString(1 + g.IntN(200))), PauseUs: 20000 + g.IntN(20000)}
	s.Ops = append([]StreamOp{w}, reads...)
	if g.Pct(50) {
		s.Ops = append(s.Ops[:2], append([]StreamOp{w}, s.Ops[2:]...)...)
	}
}

// genC17: the stream family, and (one run in twelve) the serving-context family:
// the service's per-connection reads under a context that ends.
func genC17(seed uint64, tier string) Scenario {
	g := NewGen(seed, 0xC17A)
	if g.IntN(12) == 0 {
		return wrapMix("life", genServeCtx(g, "C17", tier))
	}
	return genC17Stream(seed, tier)
}

func genC17Stream(seed uint64, tier string) Scenario {
	g := NewGen(seed, 0xC17)
	s := genStreamBase(g, "C17")
	s.Stream = genStreamBytes(g, 2+g.IntN(5*deeper(tier)), 200)
	total := len(s.peerBytes())
	// the peer sends in pieces with pauses so that operations block in between
	off := 0
	for off < total && len(s.Peer) < 30 {
		n := 1 + g.IntN(1+total/3)
		s.Peer = append(s.Peer, PeerAct{Op: "write", N: n})
		off += n
		switch g.IntN(4) {
		case 0:
		case 1:
			s.Peer = append(s.Peer, PeerAct{Op: "sleep", Us: 1 + g.IntN(3000)})
		case 2:
			s.Peer = append(s.Peer, PeerAct{Op: "await", Trigger: sf("ev:op.done:%d", 1+g.IntN(6))})
		default:
			s.Peer = append(s.Peer, PeerAct{Op: "await", Trigger: sf("ev:cancel.fire:%d", 1+g.IntN(2))}, PeerAct{Op: "sleep", Us: g.IntN(10)})
		}
	}
	nOps := 2 + g.IntN(8*deeper(tier))
	writes := g.Pct(35)
	if writes {
		// writers block on a tiny pipe whose reader starts late
		s.Config.PipeCap = []int{1, 7, 64, 1024}[g.IntN(4)]
		s.Sink = g.Pick("never", "ev:cancel.fire:1", "ev:op.done:2", "sleep:2000", "")
	}
	for i := 0; i < nOps; i++ {
		var op StreamOp
		switch {
		case writes && g.Pct(60):
			op = StreamOp{Kind: "write", Data: []byte(g.BigString(1 + g.IntN(300)))}
		case g.Pct(50):
			op = StreamOp{Kind: "frame"}
		default:
			op = StreamOp{Kind: "raw", N: []int{1, 3, 16, 100, 4096}[g.IntN(5)]}
		}
		if g.Pct(20) {
			op.PauseUs = g.IntN(1500)
		}
		if g.Pct(45) {
			switch g.IntN(8) {
			case 0, 1, 2:
				op.Ctx = CtxSpec{Mode: "cancel", Us: g.IntN(2500)}
				if g.Pct(30) {
					op.Ctx.Us = 0
				}
				if g.Pct(25) {
					op.Ctx.Trigger = sf("ev:peer.write:%d", 1+g.IntN(4))
					op.Ctx.Us = g.IntN(3)
				}
			case 3, 4:
				op.Ctx = CtxSpec{Mode: "deadline", Us: 1 + g.IntN(2500)}
			case 5:
				op.Ctx = CtxSpec{Mode: "precancel"}
			case 6:
				op.Ctx = CtxSpec{Mode: "deadline", Us: 1}
			default:
				if s.Side == "handler" {
					op.Ctx = CtxSpec{Mode: "servecancel", Us: g.IntN(2000)}
				} else {
					op.Ctx = CtxSpec{Mode: "cancel", Us: g.IntN(100)}
				}
			}
		}
		if (op.Ctx.Mode == "cancel" || op.Ctx.Mode == "precancel") && g.Pct(25) {
			op.Ctx.FarUs = 3600e6
		}
		if op.Ctx.Mode == "deadline" && g.Pct(20) {
			op.Ctx.Edge = true
		}
		if (op.Ctx.Mode == "cancel" || op.Ctx.Mode == "precancel") && op.Ctx.FarUs == 0 && g.Pct(15) {
			op.Ctx.Cause = true
		}
		s.Ops = append(s.Ops, op)
		if op.Ctx.Mode == "servecancel" {
			break
		}
	}
	if writes && g.Pct(30) {
		// reads and writes from two tasks at once; half of the time the concurrent
		// writes use the live context only
		s.Duplex = true
		live := g.Pct(50)
		for i := range s.Ops {
			if s.Ops[i].Kind == "write" && (live || s.Ops[i].Ctx.Mode == "servecancel") {
				s.Ops[i].Ctx = CtxSpec{}
			}
		}
	} else if s.Side == "client" && g.Pct(30) {
		// the client API proper: Send, the receive function, Call
		for i := range s.Ops {
			switch s.Ops[i].Kind {
			case "frame", "raw":
				s.Ops[i].Kind = g.Pick("xrecv", "xcall", "xrecv")
			case "write":
				s.Ops[i].Kind = g.Pick("xsend", "xcall")
			}
		}
		s.Ops = append([]StreamOp{{Kind: "xsend"}}, s.Ops...)
	}
	return s
}
