package props

import (
	"bytes"
	"encoding/json"
	"fmt"
	"math/rand/v2"
	"strings"
	"unicode/utf8"
)

// Gen is the scenario-generation PRNG (never used inside the bubble).
type Gen struct{ *rand.Rand }

// NewGen derives the generator of a run from its seed.
func NewGen(seed uint64, salt uint64) *Gen {
	return &Gen{rand.New(rand.NewPCG(seed, salt))}
}

func (g *Gen) Pct(p int) bool { return g.IntN(100) < p }

func (g *Gen) Pick(ss ...string) string { return ss[g.IntN(len(ss))] }

var nastyRunes = []rune{0, 1, 7, 8, 9, 10, 13, 27, 31, '"', '\\', '/', '<', '>', '&', 0x7f, 0x80, 0xe9, 0x2028, 0x2029,
	0xfeff, 0xfffd, 0x1f600, 0x10ffff, 0x4e2d, '\'', ' ', '.', 'a', 'Z', '0'}

// String generates valid UTF-8 biased to the dangerous.
var nastyPieces = []string{`\u003c`, `\u0026`, `\u0000`, `\n`, `\"`, "\r\n", "\n\r", `\\`, `</script>`, `\ud83d`}

func (g *Gen) String(maxLen int) string {
	n := 0
	switch g.IntN(6) {
	case 0:
		n = 0
	case 1, 2, 3:
		n = g.IntN(8)
	default:
		n = g.IntN(maxLen + 1)
	}
	var sb strings.Builder
	for i := 0; i < n; i++ {
		switch g.IntN(3) {
		case 0:
			if g.IntN(12) == 0 {
				// text that looks like an escape sequence, line ends of both kinds
				sb.WriteString(nastyPieces[g.IntN(len(nastyPieces))])
				break
			}
			sb.WriteRune(nastyRunes[g.IntN(len(nastyRunes))])
		case 1:
			sb.WriteByte(byte('a' + g.IntN(26)))
		default:
			r := rune(g.IntN(0x11000))
			if !utf8.ValidRune(r) {
				r = 'x'
			}
			sb.WriteRune(r)
		}
	}
	return sb.String()
}

// Number generates a JSON number lexeme, including ones no float64 or int64 can hold.
func (g *Gen) Number() string {
	switch g.IntN(10) {
	case 0:
		return "0"
	case 1:
		return "-0"
	case 2:
		return "9007199254740993"
	case 3:
		return "-9223372036854775808"
	case 4:
		return "18446744073709551615123"
	case 5:
		return fmt.Sprintf("%d.%d", g.IntN(100), g.IntN(100000))
	case 6:
		return fmt.Sprintf("%de%d", 1+g.IntN(9), g.IntN(30))
	case 7:
		return fmt.Sprintf("-%d.%dE-%d", g.IntN(10), g.IntN(1000), g.IntN(400))
	case 8:
		return "1.0"
	default:
		return fmt.Sprintf("%d", g.Int64N(1<<62)-(1<<61))
	}
}

func quote(s string) string {
	var buf bytes.Buffer
	enc := json.NewEncoder(&buf)
	enc.SetEscapeHTML(false)
	enc.Encode(s)
	return strings.TrimSuffix(buf.String(), "\n")
}

// Value generates a JSON value text of bounded size.
func (g *Gen) Value(depth int, budget *int) string {
	if *budget <= 0 {
		return "null"
	}
	*budget--
	k := g.IntN(10)
	if depth <= 0 && k >= 6 {
		k = g.IntN(6)
	}
	switch k {
	case 0:
		return "null"
	case 1:
		return g.Pick("true", "false")
	case 2, 3:
		return g.Number()
	case 4, 5:
		return quote(g.String(40))
	case 6, 7:
		n := g.IntN(5)
		parts := make([]string, n)
		for i := range parts {
			parts[i] = g.Value(depth-1, budget)
		}
		return "[" + strings.Join(parts, ",") + "]"
	default:
		return g.Object(depth-1, budget)
	}
}

// Object generates a JSON object text with distinct keys.
func (g *Gen) Object(depth int, budget *int) string {
	n := g.IntN(5)
	if *budget <= 0 {
		n = 0
	}
	seen := map[string]bool{}
	var parts []string
	for i := 0; i < n; i++ {
		key := g.String(12)
		// keys that differ only in case are in the ambiguity set of Go's decoder: avoid
		lk := strings.ToLower(key)
		if seen[lk] || lk == "cid" {
			// ("cid" is the member through which the test dispatcher finds its script)
			continue
		}
		seen[lk] = true
		parts = append(parts, quote(key)+":"+g.Value(depth, budget))
	}
	return "{" + strings.Join(parts, ",") + "}"
}

// DeepValue nests arrays/objects to the given depth.
func (g *Gen) DeepValue(depth int) string {
	var sb strings.Builder
	kinds := make([]bool, depth)
	for i := 0; i < depth; i++ {
		kinds[i] = g.Pct(50)
		if kinds[i] {
			sb.WriteString(`{"k":`)
		} else {
			sb.WriteString("[")
		}
	}
	sb.WriteString(g.Number())
	for i := depth - 1; i >= 0; i-- {
		if kinds[i] {
			sb.WriteString("}")
		} else {
			sb.WriteString("]")
		}
	}
	return sb.String()
}

// BigString is a long string value (sizes above the 4 KiB bufio buffer and the pipe capacity).
func (g *Gen) BigString(n int) string {
	var sb strings.Builder
	sb.Grow(n + 16)
	for sb.Len() < n {
		switch g.IntN(8) {
		case 0:
			sb.WriteRune(nastyRunes[g.IntN(len(nastyRunes))])
		default:
			sb.WriteString("abcdefghijklmnopqrstuvwxyz0123456789"[:1+g.IntN(36)])
		}
	}
	return sb.String()
}

// ParamsObject generates a parameters object for calls and replies.
func (g *Gen) ParamsObject(sizeClass int) string {
	switch sizeClass {
	case 0:
		b := 6
		return g.Object(2, &b)
	case 1:
		b := 40
		return g.Object(4, &b)
	case 2: // large
		n := 3000 + g.IntN(12000)
		return `{"big":` + quote(g.BigString(n)) + `,"n":` + g.Number() + `}`
	case 3: // deep
		return `{"deep":` + g.DeepValue(20+g.IntN(180)) + `}`
	default: // very large
		n := 100000 + g.IntN(900000)
		return `{"huge":` + quote(g.BigString(n)) + `}`
	}
}

// ---------------------------------------------------------------------------
// canonical form for JSON equality: members sorted, strings compared by code
// point, numbers compared by lexeme (digit for digit).

func canon(raw []byte) (string, error) {
	dec := json.NewDecoder(bytes.NewReader(raw))
	dec.UseNumber()
	var v interface{}
	if err := dec.Decode(&v); err != nil {
		return "", err
	}
	if dec.More() {
		return "", fmt.Errorf("trailing data")
	}
	// anything after the value must be white space
	rest, _ := readAll(dec)
	if len(trimJSONSpace(rest)) != 0 {
		return "", fmt.Errorf("trailing data")
	}
	var buf bytes.Buffer
	writeCanon(&buf, v)
	return buf.String(), nil
}

func readAll(dec *json.Decoder) ([]byte, error) {
	var b bytes.Buffer
	_, err := b.ReadFrom(dec.Buffered())
	return b.Bytes(), err
}

func writeCanon(buf *bytes.Buffer, v interface{}) {
	switch x := v.(type) {
	case nil:
		buf.WriteString("null")
	case bool:
		if x {
			buf.WriteString("true")
		} else {
			buf.WriteString("false")
		}
	case json.Number:
		buf.WriteString(string(x))
	case string:
		buf.WriteString(quote(x))
	case []interface{}:
		buf.WriteByte('[')
		for i, e := range x {
			if i > 0 {
				buf.WriteByte(',')
			}
			writeCanon(buf, e)
		}
		buf.WriteByte(']')
	case map[string]interface{}:
		keys := make([]string, 0, len(x))
		for k := range x {
			keys = append(keys, k)
		}
		sortStrings(keys)
		buf.WriteByte('{')
		for i, k := range keys {
			if i > 0 {
				buf.WriteByte(',')
			}
			buf.WriteString(quote(k))
			buf.WriteByte(':')
			writeCanon(buf, x[k])
		}
		buf.WriteByte('}')
	default:
		fmt.Fprintf(buf, "?%T", v)
	}
}

func sortStrings(s []string) {
	for i := 1; i < len(s); i++ {
		for j := i; j > 0 && s[j] < s[j-1]; j-- {
			s[j], s[j-1] = s[j-1], s[j]
		}
	}
}

func mustCanon(s string) string {
	c, err := canon([]byte(s))
	if err != nil {
		panic("generator produced invalid JSON: " + err.Error() + ": " + abbreviate(s, 200))
	}
	return c
}

func abbreviate(s string, n int) string {
	if len(s) <= n {
		return s
	}
	return fmt.Sprintf("%s...(%d bytes)", s[:n], len(s))
}

// trimJSONSpace removes JSON white space (space, tab, LF, CR — nothing else:
// a vertical tab or form feed after a value makes the text invalid JSON).
func trimJSONSpace(b []byte) []byte {
	return bytes.Trim(b, " \t\n\r")
}

func sortInts(s []int) {
	for i := 1; i < len(s); i++ {
		for j := i; j > 0 && s[j] < s[j-1]; j-- {
			s[j], s[j-1] = s[j-1], s[j]
		}
	}
}
