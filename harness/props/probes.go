package props

import (
	"bytes"
	"encoding/json"
	"strings"

	"verifharness/sim"
)

// Probes: per scenario family, "this condition was actually reached" counters
// that go into the evidence (coverage.probes). They run on the kernel
// goroutine after the run.

func logCount(k *sim.Kernel, kind string) int {
	n := 0
	for _, e := range k.Log {
		if e.Kind == kind {
			n++
		}
	}
	return n
}

func (s *LifeScenario) Probes(k *sim.Kernel) map[string]int {
	p := map[string]int{}
	for _, l := range k.Listeners {
		switch {
		case l.ClosedWhileAccepting:
			p["listener_closed_while_accept_blocked"]++
		case l.Closed && len(l.AcceptLog) == 0:
			p["listener_closed_before_first_accept"]++
		case l.Closed:
			p["listener_closed_between_accepts"]++
		}
		for _, t := range l.TimeoutLog {
			if t.OpenConn > 0 {
				p["accept_timeout_with_open_connection"]++
			} else {
				p["accept_timeout_idle"]++
			}
		}
	}
	for _, e := range k.Log {
		switch e.Kind {
		case "serve.return":
			var r roundRec
			json.Unmarshal([]byte(e.Data), &r)
			p["round_returned_"+classifyRet(r.Err)]++
		case "bind2.return":
			if strings.HasPrefix(e.Data, "error") {
				p["second_bind_refused"]++
			} else {
				p["second_bind_not_refused"]++
			}
		case "shutdown.call":
			p["scripted_shutdowns"]++
		case "janitor.shutdown.call":
			p["janitor_shutdowns"]++
		case "cancel":
			p["serving_context_cancelled"]++
		case "client.dialfail":
			p["dial_refused"]++
		case "register.return":
			p["register_attempt_"+classifyRet(e.Data)]++
		}
	}
	for _, c := range k.Conns {
		for _, e := range k.Log {
			if (e.Kind == "shutdown.call" || e.Kind == "janitor.shutdown.call") && c.AcceptSeq != 0 && e.Seq > c.AcceptSeq && (c.Server.FirstIOSeq == 0 || e.Seq < c.Server.FirstIOSeq) {
				p["shutdown_between_accept_and_handler_start"]++
				break
			}
		}
		if c.AcceptSeq == 0 {
			p["connection_never_accepted"]++
		} else if c.Client.Aborted {
			p["accepted_connection_reset_by_client"]++
		}
	}
	for _, c := range s.Clients {
		if c.MustServe {
			p["must_serve_obligations"]++
		}
	}
	return p
}

func (s *StreamScenario) Probes(k *sim.Kernel) map[string]int {
	p := map[string]int{"side_" + s.Side + "_" + s.Transport: 1}
	started := map[int]uint64{}
	fired := map[int]uint64{}
	for _, e := range k.Log {
		switch e.Kind {
		case "op.start":
			started[atoi(e.Data)] = e.Seq
		case "cancel.fire":
			fired[atoi(e.Data)] = e.Seq
		case "op.done":
			var d opDone
			json.Unmarshal([]byte(e.Data), &d)
			if d.I < len(s.Ops) {
				op := s.Ops[d.I]
				mode := op.Ctx.Mode
				if mode == "" {
					mode = "live"
				}
				p["op_"+op.Kind+"_"+mode+"_"+classOnly(d.Err)]++
				if f, ok := fired[d.I]; ok && f > started[d.I] && f < e.Seq {
					p["context_done_while_operation_in_progress"]++
				}
			}
		}
	}
	// payload that shares a segment with a frame delimiter
	if i := bytes.IndexByte(s.Stream, 0); i >= 0 && i+1 < len(s.Stream) && s.Stream[i+1] != '{' {
		p["payload_follows_frame"]++
	}
	return p
}

func (s *ClientScenario) Probes(k *sim.Kernel) map[string]int {
	p := map[string]int{"server_end_" + s.DieHow: 1, "transport_" + s.Transport: 1}
	if s.DieAfter >= 0 {
		p["server_dies_at_byte_offset"]++
	}
	rest := s.sent()
	for {
		i := bytes.IndexByte(rest, 0)
		if i < 0 {
			if len(rest) > 0 {
				p["trailing_partial_frame"]++
			}
			break
		}
		p["frame_"+classifyReplyFrame(rest[:i]).kind]++
		if i > 4096 {
			p["frame_larger_than_bufio_buffer"]++
		}
		rest = rest[i+1:]
	}
	for _, op := range s.Ops {
		if op.Kind == "send" && refusedFlags(op.Flags) {
			p["forbidden_flag_set_sent"]++
		}
	}
	return p
}

func (s *RegScenario) Probes(k *sim.Kernel) map[string]int {
	p := map[string]int{}
	for _, e := range k.Log {
		if e.Kind != "reg.obs" {
			continue
		}
		var o regObs
		json.Unmarshal([]byte(e.Data), &o)
		switch {
		case o.Failed:
			p[o.Op+"_transport_failure"]++
		case o.Op == "reg":
			p["register_"+o.Out]++
		default:
			p[o.Op+"_completed"]++
		}
	}
	return p
}

func (s *ProtoScenario) Probes(k *sim.Kernel) map[string]int {
	p := map[string]int{}
	for _, c := range s.Clients {
		cm := ModelConn(s.Service, c.Frames, c.StopAfter, s.Scripts)
		switch {
		case cm.BadFrame >= 0:
			p["connection_with_undecodable_frame"]++
		case cm.Incomplete:
			p["connection_with_incomplete_trailing_frame"]++
		case cm.EndsAfterCid >= 0:
			p["connection_ended_by_handler_error"]++
		case cm.AmbiguousFrom >= 0:
			p["connection_with_ambiguous_frame"]++
		default:
			p["connection_fully_modelled"]++
		}
		p["refused_reply_attempts"] += len(cm.Refused)
		if c.NoRead {
			p["client_never_reads"]++
		}
		if c.End != "close" {
			p["client_end_"+c.End]++
		}
		if c.StopAfter > 0 {
			p["client_stops_at_byte_offset"]++
		}
	}
	p["handler_invocations"] = logCount(k, "h.enter")
	return p
}

func (s *E2EScenario) Probes(k *sim.Kernel) map[string]int {
	p := map[string]int{}
	for _, cl := range s.Clients {
		p["client_over_"+cl.Transport]++
		for _, c := range cl.Calls {
			switch {
			case c.Via == "call":
				p["call_via_Call"]++
			case c.Flags&1 != 0:
				p["call_with_more"]++
			case c.Flags&2 != 0:
				p["call_oneway"]++
			default:
				p["call_plain"]++
			}
			if len(c.Params) > 4096 {
				p["request_larger_than_bufio_buffer"]++
			}
		}
	}
	p["client_replies_received"] = logCount(k, "c.reply")
	// messages whose wire length (with the NUL) is exactly a multiple of a power-of-two block
	for _, c := range k.Conns {
		for _, tap := range [][]byte{c.Client.Tap, c.Server.Tap} {
			for _, m := range bytes.SplitAfter(tap, []byte{0}) {
				switch {
				case len(m) == 0:
				case len(m)%65536 == 0:
					p["message_length_multiple_of_64KiB"]++
				case len(m)%4096 == 0:
					p["message_length_multiple_of_4KiB"]++
				}
			}
		}
	}
	return p
}

func (s *AddrScenario) Probes(k *sim.Kernel) map[string]int {
	p := map[string]int{}
	for _, st := range s.Steps {
		p["step_"+st.Mode+"_"+classifyAddr(st.Addr).kind]++
	}
	return p
}

func (r *RaceScenario) Probes(k *sim.Kernel) map[string]int {
	p := map[string]int{"family_" + r.Family: 1}
	if pr, ok := r.inner().(interface {
		Probes(k *sim.Kernel) map[string]int
	}); ok {
		for n, v := range pr.Probes(k) {
			p[n] += v
		}
	}
	return p
}
