package props

import (
	"bytes"
	"strings"
)

// C04 — method routing and the standard error replies.
// C10 — service survives arbitrary and aborted client byte streams.

func init() {
	register(&Property{ID: "C04", Gen: genC04, Decode: decodeEither(decodeProto)})
	register(&Property{ID: "C10", Gen: genC10, Decode: decodeEither(decodeProto)})
}

func mutateName(g *Gen, n string) string {
	switch g.IntN(8) {
	case 0:
		return n + "x"
	case 1:
		if len(n) > 1 {
			return n[:len(n)-1]
		}
		return n
	case 2:
		return "." + n
	case 3:
		return n + "."
	case 4:
		return strings.Replace(n, ".", "..", 1)
	case 5:
		return strings.ToUpper(n)
	case 6:
		if i := strings.IndexByte(n, '.'); i >= 0 {
			return n[i+1:]
		}
		return "x." + n
	default:
		return "x" + n
	}
}

func genMethodString(g *Gen, svc ServiceSpec) string {
	reg := svc.Ifaces[g.IntN(len(svc.Ifaces))].Name
	m := g.Pick("M", "Ping", "m", "Ünï", "GetInfo", "_", "0")
	switch g.IntN(16) {
	case 0, 1, 2, 3, 4:
		return reg + "." + m
	case 5, 6:
		return mutateName(g, reg) + "." + m
	case 7:
		return ifacePool[g.IntN(len(ifacePool))] + "." + m
	case 8:
		return reg // no method part: routes to the prefix interface, if any
	case 9:
		return g.Pick("", ".", "..", "M", ".M", "M.", "...M", "a.", " . ")
	case 10:
		return "org.varlink.service." + g.Pick("GetInfo", "GetInterfaceDescription", "Nope", "", "getinfo", "GetInfo.X")
	case 11:
		return g.Pick("org.varlink.service", "org.varlink.servicex.M", "org.varlink.M", "org.varlink.service.x.GetInfo", "Org.Varlink.Service.GetInfo")
	case 12:
		return reg + "." + m + "." + m
	case 13:
		return g.String(8) + "." + g.String(5)
	case 14:
		return reg + ".."
	default:
		return g.String(12)
	}
}

// genC04: method strings against a fixed set of registered names, and (one run
// in twelve) calls against a set that changes between serving rounds.
func genC04(seed uint64, tier string) Scenario {
	if NewGen(seed, 0xC04A).IntN(12) == 0 {
		return wrapMix("reg", genRegRouting(seed, tier))
	}
	return genC04Proto(seed, tier)
}

func genC04Proto(seed uint64, tier string) Scenario {
	g := NewGen(seed, 0xC04)
	s := &ProtoScenario{Prop: "C04", Config: genConfig(g), Scripts: map[int]Script{}}
	// routing is not schedule-sensitive: keep the scheduler cheap most of the time
	if g.Pct(35) {
		s.Config.YieldDensity = 0
	} else if g.Pct(60) {
		// routing state shared between connections shows only under statement-level preemption
		s.Config.YieldDensity = 2 + g.IntN(2)
	}
	s.Service = genService(g, 1+g.IntN(4), "unix:@c04")
	nClients := 1 + g.IntN(3)
	// contention: every connection keeps calling ITS OWN registered interface while
	// the scheduler switches between them at statement level — routing state that
	// leaks from one connection to another sends a call to the wrong dispatcher
	contention := g.Pct(20)
	if contention {
		s.Service = genService(g, 2+g.IntN(3), "unix:@c04")
		nClients = 2 + g.IntN(2)
		s.Config.YieldDensity = 3
		s.Config.Sched = 0
	}
	cid := 0
	for c := 0; c < nClients; c++ {
		var cs ClientSpec
		nCalls := 2 + g.IntN(8)
		if contention {
			nCalls = 6 + g.IntN(8)
		}
		for i := 0; i < nCalls; i++ {
			cid++
			var text string
			if contention {
				own := s.Service.Ifaces[c%len(s.Service.Ifaces)].Name
				s.Scripts[cid] = Script{Actions: []Action{{Op: "reply", Params: `{"cid":` + quote(g.String(4)) + `}`}}}
				text = callFrame(own+".M", withCid(cid, `{}`), false, false, false, nil)
			} else if g.Pct(6) && i >= nCalls-2 {
				text = g.Pick(`{"method":"org.varlink.service.GetInfo"} x`, `{"method":"a.b.M"}{"method":"a.b.M"}`, `{"method":"a.b.M"}]`, `{"method":"a.b.M"},`, `null null`, `{"method":"org.varlink.service.GetInfo"}garbage`,
					`[]`, `"a.b.M"`, `5`, `null`, `{"method":5}`, `{"method":null}`, `{}`, `{"Method":"a.b.M"}`,
					`{"method":["a.b.M"]}`, `{"method":{"x":1}}`, `true`, `{"method":"a.b.M","more":"yes"}`, `{"method":"a.b.M"`, ``)
			} else {
				method := genMethodString(g, s.Service)
				more, oneway := g.Pct(15), g.Pct(10)
				params := withCid(cid, g.ParamsObject(0))
				if g.Pct(15) {
					params = g.callParams()
				}
				if g.Pct(50) {
					s.Scripts[cid] = Script{Actions: []Action{{Op: "reply", Params: `{"cid":` + quote(g.String(4)) + `}`}}}
				} else {
					s.Scripts[cid] = genScript(g, func() int { return 0 })
				}
				// (where a call is routed to does not depend on its flags)
				text = callFrame(method, params, more, oneway, g.Pct(10), g)
			}
			cs.Frames = append(cs.Frames, FrameSpec{Cid: cid, Text: text})
		}
		cs.Cuts, cs.PauseUs = genCuts(g, len(cs.stream()))
		cs.End = "close"
		s.Clients = append(s.Clients, cs)
	}
	return s
}

// splitFrames re-derives the frame list from a raw byte stream.
func splitFrames(stream []byte) []FrameSpec {
	var out []FrameSpec
	for len(stream) > 0 {
		i := bytes.IndexByte(stream, 0)
		if i < 0 {
			out = append(out, FrameSpec{Cid: -1, Text: string(stream), NoNul: true})
			break
		}
		out = append(out, FrameSpec{Cid: -1, Text: string(stream[:i])})
		stream = stream[i+1:]
	}
	return out
}

var wrongShapes = []string{`[]`, `[1,2]`, `"str"`, `5`, `-0.5e3`, `true`, `null`, `{"method":5}`, `{"method":["x"]}`, `{"method":{}}`,
	`{"method":"a.b.M","oneway":1}`, `{"method":"a.b.M","more":"true"}`, `{"method":"a.b.M","upgrade":[]}`, `{`, `}`, `{"method":"a.b.M"`, `{"method":"a.b.M",}`,
	`{"method":"a.b.M"}}`, `{"method":"a.b.M"} x`, `nul`, `{'method':'a.b.M'}`, `{"method":"a.b.M","parameters":}`, "\xff\xfe", ` `, ``, `{"method":"a.b.M","parameters":{"cid":1}}garbage`}

// genC10: hostile byte streams against one serving round, and (one run in
// sixteen) the release clause across serving rounds.
func genC10(seed uint64, tier string) Scenario {
	g := NewGen(seed, 0xC10A)
	switch g.IntN(32) {
	case 0, 1:
		return wrapMix("life", genRelease(g, "C10"))
	case 2:
		// the serving context ends (cancel, or a deadline that passes) under idle and
		// mid-frame connections: they are released, nothing spins
		return wrapMix("life", genServeCtx(g, "C10", tier))
	}
	if sc := genC10Proto(seed, tier).(*ProtoScenario); g.IntN(12) == 0 {
		// a handler that streams until it is told that the peer is gone, and a peer
		// that goes away (close or reset) while it streams
		cid := 9000
		iface := sc.Service.Ifaces[0].Name
		sc.Scripts[cid] = Script{Actions: []Action{{Op: "stream", N: 16 + g.IntN(48), Params: g.ParamsObject(g.IntN(2))}}}
		cs := ClientSpec{Frames: []FrameSpec{{Cid: cid, Text: callFrame(iface+".M", withCid(cid, "{}"), true, false, false, g)}},
			End: g.Pick("close", "abort-quiet"), HoldUs: 100 + g.IntN(1500)}
		sc.Clients = append(sc.Clients, cs)
		return sc
	} else {
		return sc
	}
}

func genC10Proto(seed uint64, tier string) Scenario {
	g := NewGen(seed, 0xC10)
	s := &ProtoScenario{Prop: "C10", Config: genConfig(g), Scripts: map[int]Script{}, Faulted: true}
	s.Service = genService(g, 1+g.IntN(2), "unix:@c10")
	s.Shutdown = g.Pct(70)
	if !s.Shutdown && g.Pct(50) {
		s.Service.TimeoutNs = int64(1+g.IntN(1000)) * 1e6
	}
	nClients := 1 + g.IntN(3*deeper(tier))
	cid := 0
	sizeClass := func() int {
		if g.Pct(90) {
			return g.IntN(2)
		}
		return 2
	}
	for c := 0; c < nClients; c++ {
		var cs ClientSpec
		nCalls := 1 + g.IntN(5)
		var stream []byte
		for i := 0; i < nCalls; i++ {
			cid++
			iface := s.Service.Ifaces[g.IntN(len(s.Service.Ifaces))].Name
			var text string
			switch k := g.IntN(10); {
			case k < 6:
				s.Scripts[cid] = genScript(g, sizeClass)
				text = callFrame(iface+".M", withCid(cid, g.ParamsObject(sizeClass())), g.Pct(30), g.Pct(15), false, g)
			case k < 8:
				text = callFrame("org.varlink.service.GetInfo", "", false, false, false, g)
			default:
				text = callFrame(genMethodString(g, s.Service), g.maybeParams(0), g.Pct(20), g.Pct(10), false, g)
			}
			stream = append(stream, text...)
			stream = append(stream, 0)
		}
		// hostile mutations of the byte stream
		nMut := 0
		if g.Pct(75) {
			nMut = 1 + g.IntN(3)
		}
		for m := 0; m < nMut && len(stream) > 0; m++ {
			pos := g.IntN(len(stream))
			switch g.IntN(9) {
			case 0: // bit flip
				stream[pos] ^= 1 << uint(g.IntN(8))
			case 1: // delete a NUL
				if i := bytes.IndexByte(stream[pos:], 0); i >= 0 {
					stream = append(stream[:pos+i], stream[pos+i+1:]...)
				}
			case 2: // insert a NUL
				stream = append(stream[:pos], append([]byte{0}, stream[pos:]...)...)
			case 3: // truncate
				stream = stream[:pos]
			case 4, 5: // a wrong-shape frame somewhere at a frame boundary
				w := wrongShapes[g.IntN(len(wrongShapes))]
				i := bytes.IndexByte(stream[pos:], 0)
				at := len(stream)
				if i >= 0 {
					at = pos + i + 1
				}
				ins := append([]byte(w), 0)
				stream = append(stream[:at], append(ins, stream[at:]...)...)
			case 6: // random bytes
				n := 1 + g.IntN(40)
				junk := make([]byte, n)
				for i := range junk {
					junk[i] = byte(g.IntN(256))
				}
				stream = append(stream[:pos], append(junk, stream[pos:]...)...)
			case 7: // delete a byte
				stream = append(stream[:pos], stream[pos+1:]...)
			default: // duplicate a stretch
				n := 1 + g.IntN(20)
				if pos+n > len(stream) {
					n = len(stream) - pos
				}
				dup := append([]byte{}, stream[pos:pos+n]...)
				stream = append(stream[:pos], append(dup, stream[pos:]...)...)
			}
		}
		cs.Frames = splitFrames(stream)
		cs.Cuts, cs.PauseUs = genCuts(g, len(stream))
		// where and how the client goes away
		switch g.IntN(10) {
		case 0, 1:
			cs.End = "close"
		case 2:
			cs.End = "close-now"
		case 3:
			cs.End = "abort"
		case 4:
			cs.End = "abort-quiet"
		case 5, 6: // stop at an arbitrary byte offset, then vanish
			if len(stream) > 1 {
				cs.StopAfter = 1 + g.IntN(len(stream)-1)
			}
			cs.End = g.Pick("close-now", "abort", "close", "abort-quiet")
		case 7: // mid-reply: never read, tiny pipe, then abort
			cs.NoRead = true
			cs.End = g.Pick("abort-quiet", "close", "abort")
			if g.Pct(70) {
				s.Config.PipeCap = []int{1, 7, 64}[g.IntN(3)]
			}
		default:
			cs.End = "close"
		}
		if g.Pct(20) {
			cs.StartUs = g.IntN(3000)
		}
		s.Clients = append(s.Clients, cs)
	}
	// the probe: a well-behaved connection running throughout
	var probe ClientSpec
	np := 1 + g.IntN(4)
	for i := 0; i < np; i++ {
		cid++
		probe.Frames = append(probe.Frames, FrameSpec{Cid: cid, Text: callFrame("org.varlink.service.GetInfo", "", false, false, false, nil)})
	}
	for i := 0; i < np; i++ {
		probe.Cuts = append(probe.Cuts, len(probe.Frames[i].Text)+1)
		probe.PauseUs = append(probe.PauseUs, g.IntN(4000))
	}
	probe.End = "close"
	s.Clients = append(s.Clients, probe)
	return s
}
