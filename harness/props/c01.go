package props

import "fmt"

// C01 — per-call reply discipline on every connection.

func init() {
	register(&Property{ID: "C01", Gen: genC01, Decode: decodeProto})
}

func genC01(seed uint64, tier string) Scenario {
	g := NewGen(seed, 0xC01)
	s := &ProtoScenario{Prop: "C01", Config: genConfig(g), Scripts: map[int]Script{}}
	s.Service = genService(g, 1+g.IntN(3), g.Pick("unix:@c01", "tcp:127.0.0.1:4101", "unix:@c01;mode=0600"))
	s.Shutdown = g.Pct(30)
	nClients := 1 + g.IntN(4*deeper(tier))
	cid := 0
	sizeClass := func() int {
		switch {
		case g.Pct(85):
			return g.IntN(2)
		case g.Pct(80):
			return 2 + g.IntN(2)
		default:
			return 2
		}
	}
	for c := 0; c < nClients; c++ {
		var cs ClientSpec
		nCalls := 1 + g.IntN(8*deeper(tier))
		for i := 0; i < nCalls; i++ {
			cid++
			more, oneway, upgrade := g.Pct(35), g.Pct(25), g.Pct(10)
			var text string
			switch k := g.IntN(20); {
			case k < 11: // scripted method of a registered interface
				iface := s.Service.Ifaces[g.IntN(len(s.Service.Ifaces))].Name
				s.Scripts[cid] = genScript(g, sizeClass)
				text = callFrame(iface+"."+g.Pick("Ping", "M", "Test01", "Ünï"), withCid(cid, g.ParamsObject(sizeClass())), more, oneway, upgrade, g)
			case k < 13: // unknown interface
				text = callFrame(g.Pick("no.such.iface", "a.b.c.d", "org.varlink.servic", "x")+".Method", g.callParams(), more, oneway, upgrade, g)
			case k < 14: // no interface part
				text = callFrame(g.Pick("", "Method", ".Method", "."), g.maybeParams(0), more, oneway, upgrade, g)
			case k < 16:
				text = callFrame("org.varlink.service.GetInfo", g.Pick("", "{}", `{"x":1}`), more, oneway, upgrade, g)
			case k < 18:
				var p string
				switch g.IntN(5) {
				case 0:
					p = ""
				case 1:
					p = `{"interface":"no.such"}`
				case 2:
					p = `{"interface":"org.varlink.service"}`
				case 3:
					p = `{}`
				default:
					p = `{"interface":` + quote(s.Service.Ifaces[g.IntN(len(s.Service.Ifaces))].Name) + `}`
				}
				text = callFrame("org.varlink.service.GetInterfaceDescription", p, more, oneway, upgrade, g)
			default:
				text = callFrame("org.varlink.service."+g.Pick("Nope", "getInfo", "GetInfo2", ""), g.callParams(), more, oneway, upgrade, g)
			}
			cs.Frames = append(cs.Frames, FrameSpec{Cid: cid, Text: text})
		}
		cs.Cuts, cs.PauseUs = genCuts(g, len(cs.stream()))
		cs.End = "close"
		if g.Pct(20) {
			cs.StartUs = g.IntN(3000)
		}
		s.Clients = append(s.Clients, cs)
	}
	// Shutdown in the middle of the traffic: accepted connections are served to their end
	if s.Shutdown && g.Pct(20) {
		n := 0
		for i := range s.Clients {
			s.Clients[i].StartUs = 0
			n += len(ModelConn(s.Service, s.Clients[i].Frames, 0, s.Scripts).Dispatch)
		}
		if n > 0 {
			s.ShutdownAfterEnters = 1 + g.IntN(n)
		}
	}
	// a service with an idle timeout: an anchor connection is open from the start
	// over several expiries of the accept deadline; the others connect in between
	// (the service has to be serving: a connection is open) and are served as ever
	if !s.Shutdown && g.Pct(8) {
		tUs := (1 + g.IntN(200)) * 1000
		s.Service.TimeoutNs = int64(tUs) * 1000
		for i := range s.Clients {
			s.Clients[i].StartUs = 1 + g.IntN(3*tUs)
		}
		cid++
		s.Clients = append(s.Clients, ClientSpec{Frames: []FrameSpec{{Cid: cid, Text: callFrame("org.varlink.service.GetInfo", "", false, false, false, g)}},
			End: "close", HoldUs: 4*tUs + 400000})
	}
	// one handler blocks until the world is quiet: the other connections must not care
	if len(s.Clients) >= 2 && g.Pct(10) {
		cids := make([]int, 0, len(s.Scripts))
		for c := range s.Scripts {
			cids = append(cids, c)
		}
		sortInts(cids)
		if len(cids) > 0 {
			c := cids[g.IntN(len(cids))]
			sc := s.Scripts[c]
			sc.Actions = append([]Action{{Op: "hold"}}, sc.Actions...)
			s.Scripts[c] = sc
			for i := range s.Clients {
				s.Clients[i].QuietPoints = 2
			}
		}
	}
	_ = fmt.Sprint
	return s
}
