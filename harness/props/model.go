package props

import (
	"bytes"
	"encoding/json"
	"fmt"
	"strings"
	"unicode/utf8"
)

// The reference model of one service connection, written from the property
// statements (C01, C04, C10, C12, C13) and the varlink wire specification —
// not from the implementation.

// ReplyModel is one expected (or observed) reply frame in normal form.
type ReplyModel struct {
	// Params is the canonical JSON of the parameters member; absent, null
	// and {} are all normalised to "{}" at top level.
	Params    string `json:"params"`
	Continues bool   `json:"continues,omitempty"`
	Error     string `json:"error,omitempty"`
	// AnyParamName: the reply must be org.varlink.service.InvalidParameter but
	// the statement does not say which parameter is named.
	AnyParamName bool `json:"any_param_name,omitempty"`
	// DropEmpty: top-level members that are "" may as well be absent
	// (GetInfo / GetInterfaceDescription replies).
	DropEmpty bool `json:"drop_empty,omitempty"`
	// Cid is the call this reply answers (model side only).
	Cid int `json:"cid"`
}

// DispatchModel is one expected handler invocation.
type DispatchModel struct {
	Cid    int    `json:"cid"`
	Iface  string `json:"iface"`
	Method string `json:"method"`
	Frame  int    `json:"frame"`
}

// ConnModel is what the model predicts for one connection.
type ConnModel struct {
	Replies  []ReplyModel
	Dispatch []DispatchModel
	// Refused[d] lists, for the d-th dispatch of the connection (two calls may carry
	// the same cid), the script action indices whose reply attempt must be refused
	// (error to the handler, nothing written).
	Refused map[int][]int
	// Accepted[d] lists the action indices whose reply attempt must succeed.
	Accepted map[int][]int
	// ServerCloses: the server must end the connection itself (bad frame or handler failure).
	ServerCloses bool
	// EndsAfterCid: the call whose handler failed (-1 otherwise).
	EndsAfterCid int
	// Ambiguous: the stream contains a frame whose treatment the statements
	// do not determine (e.g. "method": null): replies after this index are not judged.
	AmbiguousFrom int
	// BadFrame is the index of the first frame that must not be dispatched and ends the connection (-1 none).
	BadFrame int
	// Incomplete: a trailing frame without NUL exists (never dispatched).
	Incomplete bool
	// RawMode: a handler performed raw I/O on the connection; what follows is not framed.
	RawMode bool
}

type parsedCall struct {
	ok        bool // decodes as a call
	ambiguous bool
	method    string
	more      bool
	oneway    bool
	upgrade   bool
	params    json.RawMessage
	hasParams bool
}

// parseCall classifies a frame per the statement of C10/C04: a call is a JSON
// object with a string method (bare null = empty call).
func parseCall(text string) parsedCall {
	if !utf8.ValidString(text) {
		// whether JSON text that is not valid UTF-8 is "valid JSON" is not
		// something the statements settle
		return parsedCall{ok: true, ambiguous: true}
	}
	dec := json.NewDecoder(strings.NewReader(text))
	dec.UseNumber()
	var v interface{}
	if err := dec.Decode(&v); err != nil {
		return parsedCall{}
	}
	rest, _ := readAll(dec)
	if len(trimJSONSpace(rest)) != 0 || dec.More() {
		return parsedCall{}
	}
	if v == nil {
		return parsedCall{ok: true}
	}
	obj, isObj := v.(map[string]interface{})
	if !isObj {
		return parsedCall{}
	}
	pc := parsedCall{ok: true}
	// duplicate members (also ones differing only in case) are outside what the statements determine
	if hasDuplicateKeys([]byte(text)) {
		pc.ambiguous = true
	}
	// members whose names differ from the protocol's only by case, or that are
	// JSON null where a string/bool is expected, are outside what the
	// statements determine
	for k, val := range obj {
		lk := strings.ToLower(k)
		switch lk {
		case "method", "more", "oneway", "upgrade", "parameters":
			if k != lk {
				pc.ambiguous = true
			}
			if val == nil && lk != "parameters" {
				pc.ambiguous = true
			}
		}
	}
	if m, present := obj["method"]; present && m != nil {
		s, isStr := m.(string)
		if !isStr {
			return parsedCall{}
		}
		pc.method = s
	}
	for _, f := range []struct {
		name string
		dst  *bool
	}{{"more", &pc.more}, {"oneway", &pc.oneway}, {"upgrade", &pc.upgrade}} {
		if val, present := obj[f.name]; present && val != nil {
			b, isBool := val.(bool)
			if !isBool {
				return parsedCall{}
			}
			*f.dst = b
		}
	}
	if p, present := obj["parameters"]; present {
		pc.hasParams = p != nil
		// recover the raw text of the parameters member
		var raw struct {
			Parameters json.RawMessage `json:"parameters"`
		}
		json.Unmarshal([]byte(text), &raw)
		pc.params = raw.Parameters
	}
	return pc
}

func normParams(raw string) string {
	if raw == "" {
		return "{}"
	}
	c, err := canon([]byte(raw))
	if err != nil {
		return "!invalid:" + raw
	}
	if c == "null" {
		return "{}"
	}
	return c
}

func stdError(cid int, name, field, value string) ReplyModel {
	p, _ := json.Marshal(map[string]string{field: value})
	return ReplyModel{Cid: cid, Error: "org.varlink.service." + name, Params: normParams(string(p))}
}

// errorNameSendable is the rule of C12: <interface>.<Name> with a non-empty
// interface part that is not org.varlink.service.
func errorNameSendable(name string) bool {
	i := strings.LastIndex(name, ".")
	if i <= 0 {
		return false
	}
	return name[:i] != "org.varlink.service"
}

// route is the routing function of C04.
type routeResult struct {
	kind   string // "badmethod" | "builtin" | "iface" | "noiface"
	iface  string
	method string
}

func route(method string, registered map[string]bool) routeResult {
	i := strings.LastIndex(method, ".")
	if i <= 0 {
		return routeResult{kind: "badmethod"}
	}
	iface, m := method[:i], method[i+1:]
	if iface == "org.varlink.service" {
		return routeResult{kind: "builtin", iface: iface, method: m}
	}
	if registered[iface] {
		return routeResult{kind: "iface", iface: iface, method: m}
	}
	return routeResult{kind: "noiface", iface: iface, method: m}
}

// infoReply is GetInfo's expected reply per C13.
func infoReply(cid int, svc ServiceSpec, names []string) ReplyModel {
	m := map[string]interface{}{"interfaces": names}
	// empty identity strings may be omitted or sent as ""; normalised by dropEmpty
	m["vendor"], m["product"], m["version"], m["url"] = svc.Vendor, svc.Product, svc.Version, svc.URL
	b, _ := json.Marshal(m)
	return ReplyModel{Cid: cid, Params: dropEmptyStrings(normParams(string(b))), DropEmpty: true}
}

// dropEmptyStrings removes top-level members whose value is "" (GetInfo and
// GetInterfaceDescription replies: an empty string and an absent member say
// the same thing).
func dropEmptyStrings(canonObj string) string {
	var m map[string]json.RawMessage
	if json.Unmarshal([]byte(canonObj), &m) != nil {
		return canonObj
	}
	for k, v := range m {
		if string(v) == `""` {
			delete(m, k)
		}
	}
	b, _ := json.Marshal(m)
	return normParams(string(b))
}

// registeredNames returns the names GetInfo must list: org.varlink.service
// first, then the successfully registered ones in order, each once.
func registeredNames(ifaces []IfaceSpec) ([]string, map[string]string) {
	names := []string{"org.varlink.service"}
	descs := map[string]string{}
	seen := map[string]bool{"org.varlink.service": true}
	for _, is := range ifaces {
		if seen[is.Name] {
			continue
		}
		seen[is.Name] = true
		names = append(names, is.Name)
		descs[is.Name] = is.Desc
	}
	return names, descs
}

// ModelConn predicts the behaviour of one connection.
func ModelConn(svc ServiceSpec, frames []FrameSpec, stopAfter int, scripts map[int]Script) ConnModel {
	cm := ConnModel{Refused: map[int][]int{}, Accepted: map[int][]int{}, EndsAfterCid: -1, AmbiguousFrom: -1, BadFrame: -1}
	names, descs := registeredNames(svc.Ifaces)
	registered := map[string]bool{}
	for _, n := range names[1:] {
		registered[n] = true
	}
	sent := 0
	for fi, f := range frames {
		end := sent + len(f.Text)
		if !f.NoNul {
			end++
		}
		if f.NoNul || (stopAfter > 0 && end > stopAfter) {
			cm.Incomplete = true
			return cm
		}
		sent = end
		pc := parseCall(f.Text)
		if !pc.ok {
			cm.BadFrame = fi
			cm.ServerCloses = true
			return cm
		}
		if pc.ambiguous {
			cm.AmbiguousFrom = len(cm.Replies)
			return cm
		}
		emit := func(r ReplyModel) {
			if !pc.oneway {
				cm.Replies = append(cm.Replies, r)
			}
		}
		rt := route(pc.method, registered)
		switch rt.kind {
		case "badmethod":
			emit(stdError(f.Cid, "InvalidParameter", "parameter", "method"))
		case "noiface":
			emit(stdError(f.Cid, "InterfaceNotFound", "interface", rt.iface))
		case "builtin":
			switch rt.method {
			case "GetInfo":
				emit(infoReply(f.Cid, svc, names))
			case "GetInterfaceDescription":
				var p struct {
					Interface *string `json:"interface"`
				}
				bad := !pc.hasParams || json.Unmarshal(pc.params, &p) != nil || p.Interface == nil
				if bad {
					r := stdError(f.Cid, "InvalidParameter", "parameter", "")
					r.AnyParamName = true
					emit(r)
					break
				}
				name := *p.Interface
				if name == "org.varlink.service" {
					// the built-in interface's own description: any non-empty text
					emit(ReplyModel{Cid: f.Cid, Params: "?description"})
					break
				}
				d, ok := descs[name]
				if !ok {
					emit(stdError(f.Cid, "InvalidParameter", "parameter", "interface"))
					break
				}
				b, _ := json.Marshal(map[string]string{"description": d})
				emit(ReplyModel{Cid: f.Cid, Params: dropEmptyStrings(normParams(string(b))), DropEmpty: true})
			default:
				emit(stdError(f.Cid, "MethodNotFound", "method", rt.method))
			}
		case "iface":
			// the test dispatcher finds its script through the "cid" member of the parameters
			cid := -1
			if pc.hasParams {
				var p cidParams
				if json.Unmarshal(pc.params, &p) == nil && p.Cid != nil {
					cid = *p.Cid
				}
			}
			cm.Dispatch = append(cm.Dispatch, DispatchModel{Cid: cid, Iface: rt.iface, Method: rt.method, Frame: fi})
			di := len(cm.Dispatch) - 1
			sc, ok := scripts[cid]
			if !ok {
				sc = Script{Actions: []Action{{Op: "reply"}}}
			}
			failed := false
			for ai, a := range sc.Actions {
				switch a.Op {
				case "reply":
					if a.Continues && !pc.more {
						cm.Refused[di] = append(cm.Refused[di], ai)
						continue
					}
					if a.Params != "" && !json.Valid([]byte(a.Params)) {
						// parameters that are not one JSON document cannot be put on the wire
						// (for a oneway call nothing is put on the wire anyway: whether the
						// handler is told is not determined)
						if !pc.oneway {
							cm.Refused[di] = append(cm.Refused[di], ai)
						}
						continue
					}
					cm.Accepted[di] = append(cm.Accepted[di], ai)
					emit(ReplyModel{Cid: cid, Params: normParams(a.Params), Continues: a.Continues})
				case "error":
					if !errorNameSendable(a.Name) {
						cm.Refused[di] = append(cm.Refused[di], ai)
						continue
					}
					cm.Accepted[di] = append(cm.Accepted[di], ai)
					emit(ReplyModel{Cid: cid, Params: normParams(a.Params), Error: a.Name})
				case "builtin":
					cm.Accepted[di] = append(cm.Accepted[di], ai)
					field := map[string]string{"MethodNotFound": "method", "MethodNotImplemented": "method",
						"InvalidParameter": "parameter", "InterfaceNotFound": "interface"}[a.Name]
					emit(stdError(cid, a.Name, field, a.Arg))
				case "fail":
					failed = true
				case "stream":
					// how many replies get out depends on when the peer goes away
					if cm.AmbiguousFrom < 0 {
						cm.AmbiguousFrom = len(cm.Replies)
					}
				case "rawread", "rawwrite", "readframe":
					cm.RawMode = true
				}
				if failed {
					break
				}
			}
			if failed {
				cm.ServerCloses = true
				cm.EndsAfterCid = cid
				return cm
			}
			if cm.RawMode {
				return cm
			}
		}
	}
	return cm
}

// parseReplies cuts a server->client byte stream at NUL and normalises each frame.
func parseReplies(stream []byte) (frames []ReplyModel, rest []byte, err error) {
	for {
		i := bytes.IndexByte(stream, 0)
		if i < 0 {
			return frames, stream, nil
		}
		chunk := stream[:i]
		stream = stream[i+1:]
		r, e := normReply(chunk)
		if e != nil {
			return frames, stream, fmt.Errorf("reply frame %d: %v: %s", len(frames), e, abbreviate(string(chunk), 120))
		}
		frames = append(frames, r)
	}
}

// normReply puts one reply frame in normal form; it insists on a JSON object
// with only the members the protocol defines.
func normReply(chunk []byte) (ReplyModel, error) {
	if len(chunk) == 0 {
		return ReplyModel{}, fmt.Errorf("empty frame")
	}
	dec := json.NewDecoder(bytes.NewReader(chunk))
	dec.UseNumber()
	var v interface{}
	if err := dec.Decode(&v); err != nil {
		return ReplyModel{}, fmt.Errorf("not valid JSON: %v", err)
	}
	rest, _ := readAll(dec)
	if len(trimJSONSpace(rest)) != 0 {
		return ReplyModel{}, fmt.Errorf("trailing bytes after the JSON value")
	}
	obj, ok := v.(map[string]interface{})
	if !ok {
		return ReplyModel{}, fmt.Errorf("not a JSON object")
	}
	var r ReplyModel
	for k, val := range obj {
		switch k {
		case "parameters":
			var buf bytes.Buffer
			writeCanon(&buf, val)
			r.Params = buf.String()
		case "continues":
			b, isBool := val.(bool)
			if !isBool {
				return r, fmt.Errorf("continues is not a bool")
			}
			r.Continues = b
		case "error":
			s, isStr := val.(string)
			if !isStr {
				return r, fmt.Errorf("error is not a string")
			}
			r.Error = s
		default:
			return r, fmt.Errorf("unexpected member %q", k)
		}
	}
	if r.Params == "" || r.Params == "null" {
		r.Params = "{}"
	}
	return r, nil
}

// sameReply compares an observed reply with the model's.
func sameReply(obs, exp ReplyModel) bool {
	if obs.Continues != exp.Continues || obs.Error != exp.Error {
		return false
	}
	if exp.AnyParamName {
		var p map[string]interface{}
		if json.Unmarshal([]byte(obs.Params), &p) != nil {
			return false
		}
		_, isStr := p["parameter"].(string)
		return isStr && len(p) == 1
	}
	if exp.Params == "?description" {
		var p map[string]interface{}
		if json.Unmarshal([]byte(obs.Params), &p) != nil {
			return false
		}
		s, isStr := p["description"].(string)
		return isStr && s != "" && len(p) == 1
	}
	op := obs.Params
	if exp.DropEmpty {
		op = dropEmptyStrings(op)
	}
	return op == exp.Params
}

func (r ReplyModel) String() string {
	return fmt.Sprintf("{cid=%d error=%q continues=%v params=%s}", r.Cid, r.Error, r.Continues, abbreviate(r.Params, 160))
}
