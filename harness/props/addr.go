package props

import (
	"context"
	"encoding/json"
	"fmt"
	"strings"

	"github.com/varlink/go/varlink"

	"verifharness/sim"
)

// AddrScenario (C19, simulated leg): a history of Bind / Bind+DoListen /
// Listen / Shutdown on ONE service object with address strings from a
// grammar, restricted to what can reach the simulated socket namespace (tcp
// and abstract unix addresses; filesystem sockets are the real-kernel leg).
type AddrScenario struct {
	Prop   string     `json:"prop"`
	Config sim.Config `json:"config"`
	Steps  []AddrStep `json:"steps"`
}

// AddrStep is one use of an address string.
type AddrStep struct {
	Addr string `json:"addr"`
	// Mode: bind (Bind, then Shutdown) | serve (Bind, DoListen in a child, probe, Shutdown) | listen (Listen in a child, probe, Shutdown)
	Mode string `json:"mode"`
}

func (s *AddrScenario) Cfg() sim.Config { return s.Config }

// addrClass is the outcome class the statement of C19 assigns to a string.
type addrClass struct {
	// kind: refused | valid | either (tcp with an address the statement says nothing about) | fs (filesystem socket: not in this leg)
	kind    string
	network string
	addr    string
}

func classifyAddr(a string) addrClass {
	i := strings.IndexByte(a, ':')
	if i < 0 {
		return addrClass{kind: "refused"}
	}
	proto, rest := a[:i], a[i+1:]
	if j := strings.IndexByte(rest, ';'); j >= 0 {
		rest = rest[:j]
	}
	switch proto {
	case "unix":
		if rest == "" {
			return addrClass{kind: "refused"}
		}
		if rest[0] != '@' {
			return addrClass{kind: "fs", network: "unix", addr: rest}
		}
		return addrClass{kind: "valid", network: "unix", addr: rest}
	case "tcp":
		if rest == "" || !strings.Contains(rest, ":") {
			return addrClass{kind: "either", network: "tcp", addr: rest}
		}
		return addrClass{kind: "valid", network: "tcp", addr: rest}
	}
	return addrClass{kind: "refused"}
}

type addrRec struct {
	Step int    `json:"step"`
	What string `json:"what"`
	Err  string `json:"err"`
}

func (s *AddrScenario) Setup(k *sim.Kernel) {
	svc, err := varlink.NewService("vendor", "product-c19", "1", "url")
	if err != nil {
		panic(err)
	}
	k.Spawn("main", func() {
		ctx := context.Background()
		rec := func(i int, what string, err error) {
			sim.Rec("addr", mustJSON(addrRec{i, what, describeErr(err)}))
		}
		probe := func(i int, cl addrClass) {
			ep, err := sim.Dial(cl.network, cl.addr)
			if err != nil {
				rec(i, "probe-dial", err)
				return
			}
			c := varlink.VerifNewConnection(ep)
			var product string
			err = c.GetInfo(ctx, nil, &product, nil, nil, nil)
			if err == nil && product != "product-c19" {
				err = fmt.Errorf("wrong service answered: %q", product)
			}
			rec(i, "probe", err)
			c.Close()
		}
		for i, st := range s.Steps {
			cl := classifyAddr(st.Addr)
			sim.Rec("step", sp(i))
			switch st.Mode {
			case "held":
				// a foreign listener holds the endpoint: the bind fails in the
				// operating system, after the string was accepted
				if cl.kind != "valid" {
					continue
				}
				foreign, ferr := sim.Listen(cl.network, cl.addr)
				if ferr != nil {
					continue
				}
				err := svc.Bind(ctx, st.Addr)
				rec(i, "held-bind", err)
				if err == nil {
					svc.Shutdown()
				}
				foreign.Close()
			case "ended":
				// Bind under a context that has ended already: error or success, and
				// nothing stays bound behind the service's back
				cctx, cancel := context.WithCancel(ctx)
				cancel()
				rec(i, "ended-bind", svc.Bind(cctx, st.Addr))
				rec(i, "shutdown", svc.Shutdown())
			case "bind":
				err := svc.Bind(ctx, st.Addr)
				rec(i, "bind", err)
				if err == nil {
					rec(i, "shutdown", svc.Shutdown())
				}
			case "rebind":
				// Bind twice without a Shutdown in between: error or success, and the
				// service stays usable afterwards (the first listener may leak; it is
				// closed here through GetListener so that later steps find the address free)
				err := svc.Bind(ctx, st.Addr)
				rec(i, "bind", err)
				first, _ := svc.GetListener()
				err2 := svc.Bind(ctx, st.Addr)
				rec(i, "rebind", err2)
				rec(i, "shutdown", svc.Shutdown())
				if err == nil && err2 == nil && first != nil {
					// (the second Bind replaced the first listener, which leaks; when the
					// second Bind failed the first one is still the service's to close)
					first.Close()
				}
			case "serve":
				err := svc.Bind(ctx, st.Addr)
				rec(i, "bind", err)
				if err != nil {
					continue
				}
				i := i
				sim.Go("server", func() {
					err := svc.DoListen(ctx, 0)
					rec(i, "return", err)
				})
				if cl.kind == "valid" {
					sim.Await(sim.Cond{Kind: sim.CondAcceptBlocked, S1: cl.network, S2: cl.addr})
					probe(i, cl)
				} else {
					sim.Await(sim.Cond{Kind: sim.CondQuiescent})
				}
				rec(i, "shutdown", svc.Shutdown())
				sim.Await(sim.Cond{Kind: sim.CondQuiescent})
			case "listen":
				i := i
				sim.Go("server", func() {
					err := svc.Listen(ctx, st.Addr, 0)
					rec(i, "return", err)
				})
				sim.Await(sim.Cond{Kind: sim.CondQuiescent})
				if cl.kind == "valid" && sim.Holds(sim.Cond{Kind: sim.CondAcceptBlocked, S1: cl.network, S2: cl.addr}) {
					probe(i, cl)
				}
				rec(i, "shutdown", svc.Shutdown())
				sim.Await(sim.Cond{Kind: sim.CondQuiescent})
			}
		}
		sim.Rec("main.done", "")
	})
}

func (s *AddrScenario) PostDrain(k *sim.Kernel, left []string) []sim.Violation { return nil }

func (s *AddrScenario) NonTrivial(k *sim.Kernel) bool {
	n := 0
	for _, e := range k.Log {
		if e.Kind == "addr" {
			n++
		}
	}
	return n >= 2
}

func (s *AddrScenario) Check(k *sim.Kernel) []sim.Violation {
	var out []sim.Violation
	type obs struct {
		m       map[string]string
		stepSeq uint64
		endSeq  uint64
	}
	steps := make([]obs, len(s.Steps))
	for i := range steps {
		steps[i].m = map[string]string{}
		steps[i].endSeq = ^uint64(0)
	}
	mainTask := ""
	done := false
	for _, e := range k.Log {
		switch e.Kind {
		case "step":
			var i int
			fmt.Sscan(e.Data, &i)
			steps[i].stepSeq = e.Seq
			if i > 0 {
				steps[i-1].endSeq = e.Seq
			}
			mainTask = e.Task
		case "addr":
			var r addrRec
			json.Unmarshal([]byte(e.Data), &r)
			steps[r.Step].m[r.What] = r.Err
		case "main.done":
			done = true
		}
	}
	_ = mainTask
	quiet := k.StopReason() == "quiescent"
	for i, st := range s.Steps {
		o := steps[i]
		if o.stepSeq == 0 && i > 0 {
			break
		}
		cl := classifyAddr(st.Addr)
		// which listeners were bound during this step
		var bound []*sim.Listener
		for _, l := range k.Listeners {
			if l.BindSeq >= o.stepSeq && l.BindSeq < o.endSeq {
				bound = append(bound, l)
			}
		}
		first := "bind"
		if st.Mode == "listen" {
			first = "return"
		}
		if st.Mode == "held" {
			if r, ok := o.m["held-bind"]; ok && !strings.HasPrefix(r, "error") {
				out = append(out, vio("bind", "bind-of-held-endpoint-succeeded", "step %d: Bind(%q) returned %q although another listener holds (%s, %q)", i, st.Addr, r, cl.network, cl.addr))
			}
			continue
		}
		res, have := o.m[first]
		kind := cl.kind
		if st.Mode == "ended" {
			kind = "either" // only the release clause below applies
			if cl.kind == "refused" && len(bound) > 0 {
				kind = "refused"
			}
		}
		switch kind {
		case "refused":
			if len(bound) > 0 {
				l := bound[0]
				out = append(out, vio("refusal", "refused-class-bound "+refusedKind(st.Addr), "step %d: %s(%q) must be refused (%s) but a listener was bound to (%s, %q)", i, st.Mode, st.Addr, refusedKind(st.Addr), l.Network, l.Address))
			} else if have && !strings.HasPrefix(res, "error") {
				out = append(out, vio("refusal", "refused-class-accepted "+refusedKind(st.Addr), "step %d: %s(%q) must be refused (%s) but returned %q", i, st.Mode, st.Addr, refusedKind(st.Addr), res))
			} else if !have && quiet && st.Mode == "listen" {
				out = append(out, vio("refusal", "refused-class-serving "+refusedKind(st.Addr), "step %d: Listen(%q) must be refused (%s) but has not returned", i, st.Addr, refusedKind(st.Addr)))
			}
		case "valid":
			if len(bound) == 0 {
				if have && strings.HasPrefix(res, "error") {
					out = append(out, vio("bind", "valid-address-failed", "step %d: %s(%q) failed although (%s, %q) was free: %s (an earlier step left the service unable to bind, or the string was mis-parsed)", i, st.Mode, st.Addr, cl.network, cl.addr, res))
				}
				break
			}
			l := bound[0]
			if l.Network != cl.network || l.Address != cl.addr {
				out = append(out, vio("bind", "bound-to-wrong-endpoint", "step %d: %s(%q) bound (%s, %q) instead of (%s, %q)", i, st.Mode, st.Addr, l.Network, l.Address, cl.network, cl.addr))
				break
			}
			if p, ok := o.m["probe"]; ok && p != "nil" {
				out = append(out, vio("reach", "probe-failed", "step %d: a client connected to (%s, %q) did not get the service's GetInfo answer: %s", i, cl.network, cl.addr, p))
			}
			if p, ok := o.m["probe-dial"]; ok {
				out = append(out, vio("reach", "probe-failed", "step %d: dial of (%s, %q) failed although the service is blocked in Accept there: %s", i, cl.network, cl.addr, p))
			}
		}
		// whatever was bound in a step is closed by the end of it (Shutdown was called)
		if o.endSeq != ^uint64(0) || done {
			for _, l := range bound {
				if !l.Closed {
					out = append(out, vio("release", "listener-left-open", "step %d: %s(%q) bound listener (%s, %q) which is still open after Shutdown and the end of the step", i, st.Mode, st.Addr, l.Network, l.Address))
				}
			}
		}
	}
	if quiet && !done {
		out = append(out, vio("progress", "history-stuck", "the history did not run to its end; live tasks: %v", k.LiveTasks()))
	}
	return out
}

func refusedKind(a string) string {
	i := strings.IndexByte(a, ':')
	switch {
	case i < 0:
		return "no-protocol-prefix"
	case a[:i] == "unix":
		return "empty-unix-path"
	case a[:i] == "":
		return "empty-protocol"
	}
	return "other-protocol"
}

func (s *AddrScenario) Shrinks() []Scenario {
	var out []Scenario
	for i := range s.Steps {
		if len(s.Steps) > 1 {
			c := &AddrScenario{Prop: s.Prop, Config: s.Config}
			c.Steps = append(append([]AddrStep{}, s.Steps[:i]...), s.Steps[i+1:]...)
			out = append(out, c)
		}
	}
	for i := range s.Steps {
		if s.Steps[i].Mode != "bind" {
			c := &AddrScenario{Prop: s.Prop, Config: s.Config, Steps: append([]AddrStep{}, s.Steps...)}
			c.Steps[i].Mode = "bind"
			out = append(out, c)
		}
	}
	if s.Config.YieldDensity != 0 {
		c := &AddrScenario{Prop: s.Prop, Config: s.Config, Steps: s.Steps}
		c.Config.YieldDensity = 0
		out = append(out, c)
	}
	return out
}

func decodeAddr(raw json.RawMessage) (Scenario, error) {
	var s AddrScenario
	if err := json.Unmarshal(raw, &s); err != nil {
		return nil, err
	}
	return &s, nil
}

func init() {
	register(&Property{ID: "C19", Gen: genC19, Decode: decodeAddr})
}

// GenAddrString draws from the address grammar of C19 (sim leg: no filesystem paths).
func genAddrString(g *Gen) string {
	tail := ""
	if g.Pct(30) {
		tail = g.Pick(";", ";mode=0600", ";a=b;c=d", ";;", ";:", ";unix:@x")
	}
	switch g.IntN(14) {
	case 0, 1, 2:
		return "unix:@" + g.Pick("a", "c19", "name with space", "ü", "a/b", "x:y", "@") + tail
	case 3, 4, 5:
		return "tcp:" + g.Pick("127.0.0.1:1234", "[::1]:99", "localhost:0", "host:port", "0.0.0.0:65535") + tail
	case 6:
		return g.Pick("", "foo", "unix", "tcp", "@abstract", "/run/sock", "127.0.0.1:80"[:9], "unix@x", ";")
	case 7:
		return g.Pick("udp", "http", "UNIX", "Tcp", "unixpacket", "tcp4", "ssh", " unix", "unix ", "device") + ":" + g.Pick("@x", "127.0.0.1:1", "", "x") + tail
	case 8:
		return ":" + g.Pick("", "@x", "127.0.0.1:1", ":") + tail
	case 9:
		return "unix:" + tail
	case 10:
		return "tcp:" + g.Pick("", "nohostport", ":") + tail
	case 11:
		return g.String(10)
	case 12:
		return g.Pick("unix", "tcp", "x") + ":" + g.String(8)
	default:
		return "unix:@" + g.String(6) + tail
	}
}

func genC19(seed uint64, tier string) Scenario {
	g := NewGen(seed, 0xC19)
	s := &AddrScenario{Prop: "C19", Config: genConfig(g)}
	s.Config.YieldDensity = g.IntN(2)
	n := 1 + g.IntN(6)
	for i := 0; i < n; i++ {
		a := genAddrString(g)
		if classifyAddr(a).kind == "fs" {
			// filesystem sockets belong to the real-kernel leg
			a = "unix:@" + strings.TrimPrefix(a, "unix:")
		}
		s.Steps = append(s.Steps, AddrStep{Addr: a, Mode: g.Pick("bind", "bind", "serve", "listen", "held", "rebind", "ended")})
	}
	return s
}
