package props

import (
	"context"
	"encoding/json"
	"strings"
	"time"

	"github.com/varlink/go/varlink"

	"verifharness/sim"
)

// LifeScenario is the shape of the life-cycle properties (C14, C15 and the
// C16 workloads): one Service object taken through several serving rounds by
// a "serve" task, controller tasks calling Shutdown / a second Bind or Listen
// / context cancel / RegisterInterface / GetListener at generated moments,
// raw clients connecting at generated moments, and a janitor that shuts a
// round without idle timeout down once everything went quiet.
type LifeScenario struct {
	Prop    string         `json:"prop"`
	Config  sim.Config     `json:"config"`
	Service ServiceSpec    `json:"service"`
	Scripts map[int]Script `json:"scripts"`
	Rounds  []RoundSpec    `json:"rounds"`
	Ctl     [][]CtlOp      `json:"ctl"`
	Clients []ClientSpec   `json:"clients"`
	// Cancels: some controller cancels a serving context (connections may be cut at any time).
	Cancels bool `json:"cancels,omitempty"`
	// CancelHow: "" — the serving contexts are standard cancel contexts;
	// "sim-cancel" / "expire" — they are simulator contexts from which the library
	// derives its own, ended by cancellation / like a deadline that passes
	// (Err() = context.DeadlineExceeded, which is also a timeout error).
	CancelHow string `json:"cancel_how,omitempty"`
	// Stalled: the kernel injects stalls (Config.StallPct): oracles that rely on
	// code taking no simulated time are not evaluated.
	Stalled bool `json:"stalled,omitempty"`
	// AcceptFaults: the kernel makes Accept fail with temporary errors that are
	// not timeouts (Config.AcceptErrPct). Nothing says whether a serving call
	// survives such an error: it may return it (drained, endpoint released) or
	// go on serving; it must not report an idle timeout that has not elapsed, nor
	// return nil as if it had been shut down.
	AcceptFaults bool `json:"accept_faults,omitempty"`

	svc     *varlink.Service
	ctxs    []context.Context
	cancels []context.CancelFunc
}

// RoundSpec is one serving call.
type RoundSpec struct {
	UseBind   bool  `json:"use_bind"`
	TimeoutNs int64 `json:"timeout_ns"`
	// BindCtx (UseBind): "bg" - Bind is given context.Background(), only DoListen
	// the round's context: the connections live under the context of the serving call
	BindCtx string `json:"bind_ctx,omitempty"`
	// Special: "held" - a foreign listener holds the address while this round
	// tries to bind it (the bind fails in the operating system; the next round
	// must work); "bindonly" - Bind, then Shutdown, and no serving call at all
	// (nothing ever tears the round down; the next round must work all the same);
	// "nobind" - DoListen on a service that was not bound: it is refused, and the
	// next round must work all the same
	Special string `json:"special,omitempty"`
}

// CtlOp is one controller step.
type CtlOp struct {
	// Wait: triggers (see awaitTriggers) awaited before the operation.
	Wait string `json:"wait,omitempty"`
	// Op: shutdown | bind2 | listen2 | cancel | register | getlistener
	Op  string `json:"op"`
	Arg int    `json:"arg,omitempty"`
}

func (s *LifeScenario) Cfg() sim.Config { return s.Config }

type roundRec struct {
	Round int    `json:"round"`
	Err   string `json:"err"`
}

func (s *LifeScenario) Setup(k *sim.Kernel) {
	svc, regErrs := buildService(s.Service, s.Scripts)
	reportRegErrs(k, s.Service, regErrs)
	s.svc = svc
	for range s.Rounds {
		if s.CancelHow != "" {
			// a simulator context: the library derives standard contexts from it, and
			// it can end like a deadline that passes (Err = DeadlineExceeded)
			d := k.NewCtx()
			s.ctxs = append(s.ctxs, d)
			if s.CancelHow == "expire" {
				s.cancels = append(s.cancels, d.Expire)
			} else {
				s.cancels = append(s.cancels, d.Cancel)
			}
			continue
		}
		ctx, cancel := context.WithCancel(context.Background())
		s.ctxs = append(s.ctxs, ctx)
		s.cancels = append(s.cancels, cancel)
		k.OnDrain(cancel)
	}
	network, addr := splitAddr(s.Service.Address)
	k.Spawn("serve", func() {
		for r, rd := range s.Rounds {
			sim.Rec("round.start", sp(r))
			var err error
			to := time.Duration(rd.TimeoutNs)
			if rd.Special == "held" {
				sim.Rec("hold.request", sp(r))
				sim.Await(sim.Cond{Kind: sim.CondLogged, S1: "hold.ready", N: 1})
			}
			if rd.Special == "bindonly" {
				err = svc.Bind(s.ctxs[r], s.Service.Address)
				sim.Rec("bind.return", mustJSON(roundRec{r, describeErr(err)}))
				sim.Rec("shutdown.call", sp(r))
				serr := svc.Shutdown()
				sim.Rec("shutdown.return", describeErr(serr))
				sim.Rec("serve.return", mustJSON(roundRec{r, "skipped"}))
				continue
			}
			if rd.Special == "nobind" {
				err = svc.DoListen(s.ctxs[r], to)
				sim.Rec("serve.return", mustJSON(roundRec{r, describeErr(err)}))
				continue
			}
			if rd.UseBind {
				bctx := s.ctxs[r]
				if rd.BindCtx == "bg" {
					bctx = context.Background()
				}
				err = svc.Bind(bctx, s.Service.Address)
				sim.Rec("bind.return", mustJSON(roundRec{r, describeErr(err)}))
				if err == nil {
					err = svc.DoListen(s.ctxs[r], to)
				}
			} else {
				err = svc.Listen(s.ctxs[r], s.Service.Address, to)
			}
			sim.Rec("serve.return", mustJSON(roundRec{r, describeErr(err)}))
			if rd.Special == "held" {
				// the address is free again before the next round
				sim.Await(sim.Cond{Kind: sim.CondLogged, S1: "hold.released", N: 1})
			}
		}
		sim.Rec("serve.done", "")
	})
	for _, rd := range s.Rounds {
		if rd.Special == "held" {
			k.Spawn("holder", func() {
				sim.Await(sim.Cond{Kind: sim.CondLogged, S1: "hold.request", N: 1})
				foreign, err := sim.Listen(network, addr)
				sim.Rec("hold.ready", describeErr(err))
				sim.Await(sim.Cond{Kind: sim.CondLogged, S1: "serve.return", N: 1})
				if foreign != nil {
					foreign.Close()
				}
				sim.Rec("hold.released", "")
			})
			break
		}
	}
	for ci, ops := range s.Ctl {
		ops := ops
		k.Spawn(sf("ctl%d", ci), func() {
			for _, op := range ops {
				awaitTriggers(op.Wait, network, addr)
				s.doOp(op)
			}
		})
	}
	k.Spawn("janitor", func() {
		lastRound, lastAcc, seen := -1, -1, 0
		for i := 0; i < 16; i++ {
			sim.Await(sim.Cond{Kind: sim.CondQuiescent})
			if sim.Holds(sim.Cond{Kind: sim.CondLogged, S1: "serve.done", N: 1}) {
				return
			}
			r := sim.Count(sim.Cond{Kind: sim.CondLogged, S1: "round.start"}) - 1
			if r < 0 || r >= len(s.Rounds) {
				return
			}
			// (idle means: quiescent points in a row of the same round without a new connection)
			acc := sim.Count(sim.Cond{Kind: sim.CondAccepted, S1: network, S2: addr})
			if r != lastRound || acc != lastAcc {
				lastRound, lastAcc, seen = r, acc, 0
			}
			seen++
			if s.Rounds[r].TimeoutNs > 0 && seen <= 2 {
				// an idle timeout must end this round by itself
				continue
			}
			sim.Rec("janitor.shutdown.call", sp(r))
			err := svc.Shutdown()
			sim.Rec("janitor.shutdown.return", describeErr(err))
		}
	})
	for i, c := range s.Clients {
		k.Spawn(sf("client%d", i), rawClientTask(i, s.Service, c))
	}
}

type extraIface struct{ n int }

func (e *extraIface) VarlinkDispatch(ctx context.Context, c varlink.Call, m string) error {
	return c.ReplyMethodNotImplemented(ctx, m)
}
func (e *extraIface) VarlinkGetName() string        { return sf("extra.iface%d", e.n) }
func (e *extraIface) VarlinkGetDescription() string { return "interface extra" }

func (s *LifeScenario) doOp(op CtlOp) {
	switch op.Op {
	case "shutdown":
		sim.Rec("shutdown.call", "")
		err := s.svc.Shutdown()
		sim.Rec("shutdown.return", describeErr(err))
	case "bind2":
		sim.Rec("bind2.call", "bind")
		err := s.svc.Bind(context.Background(), s.Service.Address)
		sim.Rec("bind2.return", describeErr(err))
	case "listen2":
		sim.Rec("bind2.call", "listen")
		err := s.svc.Listen(context.Background(), s.Service.Address, 0)
		sim.Rec("bind2.return", describeErr(err))
	case "cancel":
		if op.Arg < len(s.cancels) {
			sim.Rec("cancel", sp(op.Arg))
			s.cancels[op.Arg]()
		}
	case "register":
		err := s.svc.RegisterInterface(&extraIface{op.Arg})
		sim.Rec("register.return", describeErr(err))
	case "getlistener":
		l, _ := s.svc.GetListener()
		sim.Rec("getlistener", sp(l != nil))
	default:
		panic("unknown controller op " + op.Op)
	}
}

func (s *LifeScenario) PostDrain(k *sim.Kernel, left []string) []sim.Violation { return nil }

// Forgive: a second Listen that was NOT refused (a Shutdown had already cleared
// the serving state) runs as a second serving call next to the end of the first
// one — a use the library does not support and no property promises anything
// about; the first call's teardown may pull the listener from under it (nil
// listener in its accept loop). A panic of the controller task inside that
// Listen is not a finding of C14.
func (s *LifeScenario) Forgive(k *sim.Kernel, v sim.Violation) bool {
	// (the nil listener shows in whichever of the two overlapping serving calls
	// loses the race: the controller's second Listen or the serving task's next round)
	if v.Clause != "no-panic" || !(strings.Contains(v.Key, "task=ctl") || strings.Contains(v.Key, "task=serve")) ||
		!(strings.Contains(v.Detail, "varlink.(*Service).Listen(") || strings.Contains(v.Detail, "varlink.(*Service).DoListen(")) {
		return false
	}
	// (the controller's second calls are sequential: a return belongs to the call before it)
	calls, refused, last := 0, 0, ""
	for _, e := range k.Log {
		switch e.Kind {
		case "bind2.call":
			last = e.Data
			if e.Data == "listen" {
				calls++
			}
		case "bind2.return":
			if last == "listen" && strings.HasPrefix(e.Data, "error") {
				refused++
			}
		}
	}
	return calls > refused
}

func (s *LifeScenario) NonTrivial(k *sim.Kernel) bool {
	for _, e := range k.Log {
		if e.Kind == "serve.return" {
			return true
		}
	}
	return false
}

// lifeRound is what the log says about one serving round.
type lifeRound struct {
	idx       int
	startSeq  uint64
	bindSeq   uint64
	bindErr   string
	hasBind   bool
	returned  bool
	retSeq    uint64
	retAt     time.Duration
	retErr    string
	lis       *sim.Listener
	knownSeq  uint64 // from this sequence number on the service is certainly bound
	knownBind bool
}

type callRec struct {
	invoke, ret uint64
	returned    bool
	task        string
	janitor     bool
	// round (janitor only): the round the janitor had found idle when it decided to shut it down
	round int
}

func (s *LifeScenario) Check(k *sim.Kernel) []sim.Violation {
	var out []sim.Violation
	conns := clientConns(k)
	serveTask := ""
	var rounds []*lifeRound
	var shutdowns []*callRec
	type bind2Rec struct {
		kind, task  string
		invoke, ret uint64
		err         string
		returned    bool
		bound       bool // it got as far as binding a listener: it was not refused
	}
	var bind2s []*bind2Rec
	done := false
	for _, e := range k.Log {
		switch e.Kind {
		case "round.start":
			serveTask = e.Task
			rounds = append(rounds, &lifeRound{idx: len(rounds), startSeq: e.Seq})
		case "bind.return":
			var r roundRec
			json.Unmarshal([]byte(e.Data), &r)
			rd := rounds[len(rounds)-1]
			rd.hasBind, rd.bindSeq, rd.bindErr = true, e.Seq, r.Err
		case "serve.return":
			var r roundRec
			json.Unmarshal([]byte(e.Data), &r)
			rd := rounds[len(rounds)-1]
			rd.returned, rd.retSeq, rd.retAt, rd.retErr = true, e.Seq, e.At, r.Err
		case "serve.done":
			done = true
		case "shutdown.call", "janitor.shutdown.call":
			shutdowns = append(shutdowns, &callRec{invoke: e.Seq, task: e.Task, janitor: e.Kind != "shutdown.call", round: atoi(e.Data)})
		case "shutdown.return", "janitor.shutdown.return":
			for i := len(shutdowns) - 1; i >= 0; i-- {
				if shutdowns[i].task == e.Task && !shutdowns[i].returned {
					shutdowns[i].returned, shutdowns[i].ret = true, e.Seq
					break
				}
			}
		case "bind2.call":
			bind2s = append(bind2s, &bind2Rec{kind: e.Data, task: e.Task, invoke: e.Seq})
		case "bind2.return":
			b := bind2s[len(bind2s)-1]
			b.returned, b.ret, b.err = true, e.Seq, e.Data
		}
	}
	// listeners bound by the serving task, by round
	for _, l := range k.Listeners {
		if l.BoundBy != serveTask {
			continue
		}
		for i := len(rounds) - 1; i >= 0; i-- {
			if l.BindSeq >= rounds[i].startSeq {
				if rounds[i].lis == nil {
					rounds[i].lis = l
				}
				break
			}
		}
	}
	for _, rd := range rounds {
		if rd.lis == nil {
			continue
		}
		if s.Rounds[rd.idx].UseBind {
			if rd.hasBind && rd.bindErr == "nil" {
				rd.knownBind, rd.knownSeq = true, rd.bindSeq
			}
		} else if len(rd.lis.AcceptLog) > 0 {
			rd.knownBind, rd.knownSeq = true, rd.lis.AcceptLog[0].Seq
		}
	}
	quiet := k.StopReason() == "quiescent"
	// A second Bind/Listen that was NOT refused (legitimately: a Shutdown had
	// already cleared the serving state, or wrongly: reported below) replaces the
	// service's listener; from then on the rounds of the serving task are not
	// judged any more.
	polluted := ^uint64(0)
	roundStartOf := func(seq uint64) uint64 {
		st := uint64(0)
		for _, rd := range rounds {
			if rd.startSeq <= seq {
				st = rd.startSeq
			}
		}
		return st
	}
	for _, b := range bind2s {
		for _, l := range k.Listeners {
			if l.BoundBy == b.task && l.BindSeq > b.invoke && (!b.returned || l.BindSeq < b.ret) {
				b.bound = true
			}
		}
		if (!b.returned || !strings.HasPrefix(b.err, "error") || b.bound) && b.invoke < polluted {
			polluted = b.invoke
		}
	}

	// ---- per-connection protocol oracle
	perClient := map[int][]hev{}
	for _, e := range k.Log {
		if !strings.HasPrefix(e.Kind, "h.") {
			continue
		}
		owner := -1
		for ci := range s.Clients {
			if c := conns[ci]; c != nil && c.Server.UsedBy(e.Task) {
				owner = ci
				break
			}
		}
		perClient[owner] = append(perClient[owner], hev{e.Seq, e.Kind, e.Data})
	}
	for ci, cs := range s.Clients {
		key := sf("client%d", ci)
		conn := conns[ci]
		// an obligation holds only if nobody asked the round the client aims at to
		// stop (a janitor call aimed at the previous round may land in it late)
		target := 0
		if strings.Contains(cs.Wait, "serve.return:1") {
			target = 1
		}
		obliged := cs.MustServe && !s.Stalled && target < len(rounds)
		if obliged {
			rd := rounds[target]
			upto := ^uint64(0)
			if rd.returned {
				upto = rd.retSeq
			}
			if shutdownOverlaps(shutdowns, rd.startSeq, upto) {
				obliged = false
			}
		}
		if obliged && rounds[target].lis != nil && len(rounds[target].lis.AcceptErrLog) > 0 {
			obliged = false // the round may legitimately have ended with the injected accept error
		}
		if obliged && (conn == nil || conn.AcceptSeq == 0) && quiet {
			why := "its dial was refused or never happened"
			if conn != nil {
				why = sf("it connected to listener L%d at seq %d but was never accepted", conn.Lis.ID, conn.DialSeq)
			}
			out = append(out, vio("must-serve", "not-served", "%s dials while the service has to be serving (round 0, no Shutdown issued, idle timeout not due or another connection open) but %s", key, why))
			continue
		}
		if conn == nil || conn.AcceptSeq == 0 {
			continue
		}
		// an accepted connection is served to its end, whatever happens to the listener
		faulted := cs.End != "close" || cs.NoRead || s.Cancels || cs.HoldUs > 0 || s.Stalled
		out = append(out, checkClientConn(key, s.Service, s.Scripts, cs, conn, perClient[ci], faulted, true, s.Cancels)...)
	}

	// ---- liveness: every round ends
	if quiet && !done && polluted == ^uint64(0) {
		if len(rounds) == 0 {
			return append(out, vio("harness", "no-round", "the serving task never started"))
		}
		cur := rounds[len(rounds)-1]
		where := "not running"
		for _, ti := range k.LiveTasks() {
			if ti.ID == serveTask {
				where = "blocked in " + ti.Blocked
				if ti.Blocked == "" {
					where = "blocked in the library's own synchronisation after " + ti.Site
				}
			}
		}
		to := "no-timeout"
		if s.Rounds[cur.idx].TimeoutNs > 0 {
			to = "idle-timeout"
		}
		where0 := where
		if i := strings.Index(where0, " L"); i >= 0 && strings.HasPrefix(where0, "blocked in accept") {
			where0 = "blocked in accept"
		}
		if i := strings.Index(where0, " after "); i >= 0 {
			where0 = where0[:i]
		}
		out = append(out, vio("serve-ends", "serve-stuck "+to+" "+where0, "round %d (%s) has not returned at quiescence although every client is gone and Shutdown was called %d times (last ones by the janitor at quiescence); serving task %s", cur.idx, to, len(shutdowns), where))
	}
	for _, rd := range rounds {
		spec := s.Rounds[rd.idx]
		l := rd.lis
		if !rd.returned && polluted != ^uint64(0) || rd.returned && rd.retSeq > polluted {
			break
		}
		// ---- special rounds
		if spec.Special == "held" {
			if l != nil {
				out = append(out, vio("second-bind", "bind-of-held-endpoint-succeeded", "round %d bound %s although a foreign listener held it", rd.idx, s.Service.Address))
			}
			continue
		}
		if spec.Special == "nobind" {
			if l != nil {
				out = append(out, vio("second-bind", "dolisten-without-bind-bound", "round %d: DoListen without a Bind bound listener L%d", rd.idx, l.ID))
			}
			continue
		}
		if spec.Special == "bindonly" {
			if l != nil && rd.returned && (!l.Closed || l.CloseSeq > rd.retSeq) {
				out = append(out, vio("endpoint-released", "listener-open-after-return shutdown", "round %d: Bind, then Shutdown without a serving call: listener L%d is still open", rd.idx, l.ID))
			}
			continue
		}
		// ---- re-bind: the address is free again after the previous round returned
		if l == nil {
			if rd.returned || quiet {
				prev := "the start of the run"
				if rd.idx > 0 {
					prev = sf("round %d returned %q", rd.idx-1, rounds[rd.idx-1].retErr)
				}
				out = append(out, vio("reusable", "rebind-failed", "round %d could not bind %s after %s: %s / %s", rd.idx, s.Service.Address, prev, rd.bindErr, rd.retErr))
			}
			break // later rounds are consequences
		}
		if !rd.returned {
			continue
		}
		// ---- drain: all accepted connections have ended when the serving call returns
		for _, c := range l.Accepted {
			if !c.Server.Closed || c.Server.CloseSeq > rd.retSeq {
				out = append(out, vio("drain", "returned-before-drain", "round %d returned at seq %d while the server end of accepted connection c%d was still open (closed at seq %d)", rd.idx, rd.retSeq, c.ID, c.Server.CloseSeq))
				break
			}
		}
		// ---- endpoint released when the serving call has returned
		if !l.Closed || l.CloseSeq > rd.retSeq {
			how := "shutdown"
			if rd.retErr == "timeout" {
				how = "timeout"
			}
			out = append(out, vio("endpoint-released", "listener-open-after-return "+how, "round %d returned %q at seq %d but its listener L%d is still open (close seq %d): later clients connect to a service that is gone and the address cannot be bound again", rd.idx, rd.retErr, rd.retSeq, l.ID, l.CloseSeq))
		}
		// ---- the serving call gives up its listener by itself (timeout return) only when no accepted connection is open
		if l.ClosedBy == serveTask && l.OpenAtClose > 0 && rd.retErr == "timeout" {
			out = append(out, vio("timeout", "timeout-with-open-connection", "round %d (timeout %v) decided to stop on an idle timeout and closed listener L%d at seq %d while %d accepted connection(s) were still open", rd.idx, time.Duration(spec.TimeoutNs), l.ID, l.CloseSeq, l.OpenAtClose))
		}
		// ---- nil-return rule
		if l.ClosedWhileAccepting {
			for _, sd := range shutdowns {
				if sd.task == l.ClosedBy && sd.invoke <= l.CloseSeq && (!sd.returned || sd.ret >= l.CloseSeq) && sd.invoke > l.AcceptSinceAtClose {
					interfered := false
					for _, b := range bind2s {
						if b.invoke < rd.retSeq && (!b.returned || b.ret > sd.invoke) {
							interfered = true
						}
					}
					if rd.retErr != "nil" && !interfered {
						out = append(out, vio("nil-return", "shutdown-while-accepting-returned-error", "round %d: Shutdown (invoked at seq %d) found the service blocked in Accept (since seq %d) and closed the listener at seq %d, but the serving call returned %q", rd.idx, sd.invoke, l.AcceptSinceAtClose, l.CloseSeq, rd.retErr))
					}
					break
				}
			}
		}
		// ---- which Shutdown calls concern this round
		var counted []*callRec
		for _, sd := range shutdowns {
			if rd.knownBind && sd.invoke > rd.knownSeq && sd.invoke < rd.retSeq {
				counted = append(counted, sd)
			}
		}
		// ---- nothing that arrives after Shutdown returned is served by this round
		for _, sd := range counted {
			if !sd.returned {
				continue
			}
			for _, c := range l.Accepted {
				if c.DialSeq > sd.ret {
					out = append(out, vio("late-connection", "served-after-shutdown", "round %d: connection c%d was dialled at seq %d, after Shutdown had returned at seq %d, and was accepted at seq %d by the serving call that was shut down", rd.idx, c.ID, c.DialSeq, sd.ret, c.AcceptSeq))
					break
				}
			}
		}
		// ---- connections that reach the dead listener after the serving call returned
		for _, c := range k.Conns {
			if c.Lis == l && c.DialSeq > rd.retSeq {
				out = append(out, vio("endpoint-released", "dial-reaches-dead-service", "connection c%d dialled at seq %d reached listener L%d of round %d, which had returned %q at seq %d", c.ID, c.DialSeq, l.ID, rd.idx, rd.retErr, rd.retSeq))
				break
			}
		}
		// ---- return value and return time
		lastNew := time.Duration(-1)
		if len(l.AcceptLog) > 0 {
			lastNew = l.AcceptLog[0].At
		}
		lastEnd := lastNew
		for _, c := range l.Accepted {
			if c.AcceptAt > lastNew {
				lastNew = c.AcceptAt
			}
			if c.Server.CloseAt > lastEnd {
				lastEnd = c.Server.CloseAt
			}
		}
		if lastNew > lastEnd {
			lastEnd = lastNew
		}
		to := time.Duration(spec.TimeoutNs)
		switch {
		case rd.retErr == "timeout":
			if spec.TimeoutNs == 0 {
				out = append(out, vio("timeout", "timeout-without-timeout", "round %d was started without idle timeout but returned the timeout error", rd.idx))
				break
			}
			if s.Stalled {
				break
			}
			if lastNew >= 0 && rd.retAt < lastNew+to {
				out = append(out, vio("timeout", "timeout-too-early", "round %d (timeout %v) returned the timeout error at %v, but the last new connection (or the start of serving) was at %v: only %v without a new connection", rd.idx, to, rd.retAt, lastNew, rd.retAt-lastNew))
			}
			if rd.retAt > lastEnd+to {
				out = append(out, vio("timeout", "timeout-too-late", "round %d (timeout %v): the last connection ended at %v (last accept %v) but the timeout return came at %v, later than the next expiry", rd.idx, to, lastEnd, lastNew, rd.retAt))
			}
		case !shutdownOverlaps(shutdowns, rd.startSeq, rd.retSeq):
			// nobody asked the service to stop
			if strings.HasPrefix(rd.retErr, "error") && len(l.AcceptLog) == 0 {
				break // could not start serving; judged elsewhere
			}
			if acceptErrReturned(l, rd.retErr, rd.retSeq) {
				break // an injected accept failure, handed to the caller as it is
			}
			out = append(out, vio("stops-by-itself", "unexpected-return "+classifyRet(rd.retErr), "round %d (timeout %v) returned %q at %v although no Shutdown was issued", rd.idx, to, rd.retErr, rd.retAt))
		}
		// a round with idle timeout that nobody shut down must have ended by that timeout
		if spec.TimeoutNs > 0 && rd.retErr != "timeout" {
			onlyJanitor := false
			for _, sd := range shutdowns {
				if sd.invoke < rd.retSeq && (!sd.returned || sd.ret > rd.startSeq) {
					// (a janitor call aimed at an earlier round that lands here late is an ordinary Shutdown)
					if sd.janitor && sd.round == rd.idx {
						onlyJanitor = true
					} else {
						onlyJanitor = false
						break
					}
				}
			}
			// ... by the record of its listener: at an expiry of the accept deadline no
			// accepted connection was open and the world was quiet (nothing but the serving
			// task had run since the expiry before, so the service's own count was settled):
			// that expiry had to end the round, yet the deadline was armed and expired again.
			// (That the janitor found the world quiet three times says nothing by itself: a
			// client may have held a connection open across those points.)
			if onlyJanitor {
				quietAt := map[uint64]bool{}
				for _, q := range k.QuiesceSeqs {
					quietAt[q] = true
				}
				for i, e := range l.TimeoutLog {
					if e.OpenConn == 0 && quietAt[e.Seq] && i+1 < len(l.TimeoutLog) {
						out = append(out, vio("timeout", "timeout-never-fired", "round %d (timeout %v): at %v the accept deadline expired with no accepted connection open and the world quiet, yet the round did not stop by itself: the deadline expired again at %v and the janitor had to shut the round down; it returned %q", rd.idx, to, e.At, l.TimeoutLog[i+1].At, rd.retErr))
						break
					}
				}
			}
		}
	}
	// ---- a cancelled serving context ends the connections of that round: their
	// server ends are closed by the service, not only once the client goes away
	for _, e := range k.Log {
		if e.Kind != "cancel" || !quiet {
			continue
		}
		r := atoi(e.Data)
		if r >= len(rounds) || rounds[r].lis == nil {
			continue
		}
		for ci, cs := range s.Clients {
			c := conns[ci]
			if c == nil || c.Lis != rounds[r].lis || c.AcceptSeq == 0 || c.AcceptSeq > e.Seq {
				continue
			}
			if cs.End != "close" || cs.HoldUs > 0 || c.Client.CloseSeq < e.Seq {
				continue // the client went away by itself, possibly first
			}
			// the cancellation must have had a full quiet point to take effect
			// before the one at which the client was let go
			settled := false
			for _, q := range k.QuiesceSeqs {
				if q > e.Seq && q < c.Client.CloseSeq {
					for _, q2 := range k.QuiesceSeqs {
						if q2 > q && q2 <= c.Client.CloseSeq {
							settled = true
						}
					}
				}
			}
			if !settled {
				continue
			}
			if !c.Server.Closed || c.Server.CloseSeq > c.Client.CloseSeq {
				out = append(out, vio("cancel-ends-connections", "connection-survives-cancel", "round %d: its context was cancelled at seq %d but the server end of accepted connection c%d was still open when the client finally closed (seq %d) at a quiet point", r, e.Seq, c.ID, c.Client.CloseSeq))
				break
			}
		}
	}
	// ---- a second bind while serving is refused
	if len(s.Ctl) == 1 {
		for _, b := range bind2s {
			// refusal is certain only if no Shutdown has been issued in this round so far
			upto := b.ret
			if !b.returned {
				upto = ^uint64(0)
			}
			if shutdownOverlaps(shutdowns, roundStartOf(b.invoke), upto) {
				continue
			}
			if !b.returned {
				if quiet {
					out = append(out, vio("second-bind", "second-"+b.kind+"-accepted", "a second %s issued while the first serving call was blocked in Accept did not return: it is serving", b.kind))
				}
				continue
			}
			if !strings.HasPrefix(b.err, "error") || b.bound {
				out = append(out, vio("second-bind", "second-"+b.kind+"-accepted", "a second %s issued (seq %d) while the first serving call was blocked in Accept returned %q (bound a listener: %v) instead of being refused", b.kind, b.invoke, b.err, b.bound))
			}
		}
	}
	out = append(out, s.checkRelease(k)...)
	return out
}

// acceptErrReturned: the serving call returned the error of an accept failure
// injected on its listener before the return.
func acceptErrReturned(l *sim.Listener, retErr string, retSeq uint64) bool {
	text := map[string]string{"EMFILE": "too many open files", "ENFILE": "too many open files in system", "ECONNABORTED": "software caused connection abort"}
	for _, a := range l.AcceptErrLog {
		if a.Seq < retSeq && strings.HasPrefix(retErr, "error") && strings.Contains(retErr, text[a.Errno]) {
			return true
		}
	}
	return false
}

func classifyRet(e string) string {
	if strings.HasPrefix(e, "error") {
		return "error"
	}
	return e
}

// shutdownOverlaps: some Shutdown call was in progress at some point of [from, to].
func shutdownOverlaps(sds []*callRec, from, to uint64) bool {
	for _, sd := range sds {
		if sd.invoke < to && (!sd.returned || sd.ret > from) {
			return true
		}
	}
	return false
}

// checkRelease: connections whose client is gone have been released.
func (s *LifeScenario) checkRelease(k *sim.Kernel) []sim.Violation {
	var out []sim.Violation
	if k.StopReason() != "quiescent" {
		return nil
	}
	for _, c := range k.Conns {
		if c.AcceptSeq == 0 || !c.Client.Closed {
			continue
		}
		if !c.Server.Closed {
			out = append(out, vio("resource-release", "server-end-open", "connection c%d: the client end is gone (closed at seq %d, aborted=%v) but the server end is still open at quiescence", c.ID, c.Client.CloseSeq, c.Client.Aborted))
		}
	}
	return out
}

// ---------------------------------------------------------------------------
// shrinking

func (s *LifeScenario) clone() *LifeScenario {
	b, _ := json.Marshal(s)
	var c LifeScenario
	json.Unmarshal(b, &c)
	return &c
}

func (s *LifeScenario) Shrinks() []Scenario {
	var out []Scenario
	add := func(c *LifeScenario) { out = append(out, c) }
	for i := range s.Clients {
		c := s.clone()
		c.Clients = append(c.Clients[:i], c.Clients[i+1:]...)
		// the obligation of a late client may rest on the connection that is dropped
		for j := range c.Clients {
			if c.Clients[j].StartUs > 0 {
				c.Clients[j].MustServe = false
			}
		}
		add(c)
	}
	for i := range s.Ctl {
		for j := range s.Ctl[i] {
			c := s.clone()
			c.Ctl[i] = append(c.Ctl[i][:j], c.Ctl[i][j+1:]...)
			add(c)
		}
	}
	if len(s.Rounds) > 1 {
		c := s.clone()
		c.Rounds = c.Rounds[:len(c.Rounds)-1]
		// obligations of clients that wait for a later round go with it
		for i := range c.Clients {
			if strings.Contains(c.Clients[i].Wait, "serve.return") {
				c.Clients[i].MustServe = false
			}
		}
		add(c)
	}
	for i := range s.Clients {
		for j := range s.Clients[i].Frames {
			if len(s.Clients[i].Frames) > 1 {
				c := s.clone()
				c.Clients[i].Frames = append(c.Clients[i].Frames[:j], c.Clients[i].Frames[j+1:]...)
				c.Clients[i].Cuts = nil
				add(c)
			}
		}
		if len(s.Clients[i].Cuts) > 0 || len(s.Clients[i].PauseUs) > 0 {
			c := s.clone()
			c.Clients[i].Cuts, c.Clients[i].PauseUs = nil, nil
			add(c)
		}
	}
	cfgs := []func(*sim.Config) bool{
		func(c *sim.Config) bool { ok := c.YieldDensity != 0; c.YieldDensity = 0; return ok },
		func(c *sim.Config) bool { ok := c.Segmentation != 0; c.Segmentation = 0; return ok },
		func(c *sim.Config) bool { ok := c.ShortReads != 0; c.ShortReads = 0; return ok },
		func(c *sim.Config) bool { ok := c.MaxLatencyUs != 0; c.MaxLatencyUs = 0; return ok },
		func(c *sim.Config) bool { ok := c.PipeCap != 0; c.PipeCap = 0; return ok },
		func(c *sim.Config) bool {
			ok := c.Sched != 1 || c.StickPct != 100
			c.Sched = 1
			c.StickPct = 100
			return ok
		},
	}
	for _, f := range cfgs {
		c := s.clone()
		if f(&c.Config) {
			add(c)
		}
	}
	return out
}

func decodeLife(raw json.RawMessage) (Scenario, error) {
	var s LifeScenario
	if err := json.Unmarshal(raw, &s); err != nil {
		return nil, err
	}
	return &s, nil
}

// ---------------------------------------------------------------------------
// generation

func init() {
	register(&Property{ID: "C14", Gen: genC14, Decode: decodeLife})
	register(&Property{ID: "C15", Gen: genC15, Decode: decodeLife})
}

// genLifeClient generates a client with 1..3 calls.
func genLifeClient(g *Gen, s *LifeScenario, cid *int, simple bool) ClientSpec {
	var cs ClientSpec
	n := 1 + g.IntN(3)
	for i := 0; i < n; i++ {
		*cid++
		iface := s.Service.Ifaces[g.IntN(len(s.Service.Ifaces))].Name
		var text string
		switch k := g.IntN(10); {
		case k < 6:
			if simple {
				s.Scripts[*cid] = Script{Actions: []Action{{Op: "reply", Params: g.ParamsObject(0)}}}
				if g.Pct(30) {
					s.Scripts[*cid] = Script{Actions: []Action{{Op: "sleep", N: g.IntN(3000)}, {Op: "reply", Params: g.ParamsObject(0)}}}
				}
				if g.Pct(4) {
					// a "Quit" method: the handler itself asks the service to stop
					s.Scripts[*cid] = Script{Actions: []Action{{Op: "shutdown"}, {Op: "reply", Params: g.ParamsObject(0)}}}
				}
			} else {
				s.Scripts[*cid] = genScript(g, func() int { return g.IntN(2) })
			}
			text = callFrame(iface+".M", withCid(*cid, g.ParamsObject(0)), g.Pct(30), !simple && g.Pct(15), false, g)
		case k < 9:
			text = callFrame("org.varlink.service.GetInfo", "", false, false, false, g)
		default:
			text = callFrame("no.such.iface.M", "", false, false, false, g)
		}
		cs.Frames = append(cs.Frames, FrameSpec{Cid: *cid, Text: text})
	}
	cs.Cuts, cs.PauseUs = genCuts(g, len(cs.stream()))
	cs.End = "close"
	return cs
}

func genShutdownTrigger(g *Gen) string {
	switch g.IntN(12) {
	case 0:
		return "bound"
	case 1, 2:
		return "acceptblocked"
	case 3:
		return sf("acceptcalls:+%d", 1+g.IntN(3))
	case 4, 5:
		return sf("accepted:+%d", 1+g.IntN(2))
	case 6, 7:
		return sf("dialed:+%d", 1+g.IntN(2))
	case 8:
		return sf("sleep:%d", g.IntN(4000))
	case 9:
		return "quiescent"
	case 10:
		return "bound," + sf("sleep:%d", g.IntN(100))
	default:
		return ""
	}
}

// genRelease (C10): a hostile peer is connected — idle, mid-frame or not reading
// its replies — when the service is shut down and disappears only afterwards;
// its resources are released all the same: the serving call returns, and the
// next serving round, started with an idle timeout and visited by nobody, stops
// by itself.
func genRelease(g *Gen, prop string) *LifeScenario {
	s := &LifeScenario{Prop: prop, Config: genConfig(g), Scripts: map[int]Script{}}
	s.Service = genService(g, 1+g.IntN(2), "unix:@release")
	s.Rounds = []RoundSpec{{UseBind: g.Pct(50)}, {UseBind: g.Pct(50), TimeoutNs: int64(1+g.IntN(20)) * 1e6}}
	s.Ctl = [][]CtlOp{{{Wait: "accepted:1", Op: "shutdown"}}}
	cid := 0
	a := genLifeClient(g, s, &cid, true)
	a.Cuts, a.PauseUs = nil, nil
	switch g.IntN(3) {
	case 0: // idle after complete calls
	case 1: // mid-frame
		if n := len(a.stream()); n > 2 {
			a.StopAfter = 1 + g.IntN(n-1)
		}
	default: // never reads its replies
		a.NoRead = true
	}
	a.End = g.Pick("close", "abort-quiet")
	s.Clients = append(s.Clients, a)
	return s
}

// genServeCtx (C17): the context given to Listen / DoListen ends — cancelled, or
// like a deadline that passes — while accepted connections are idle, mid-frame
// or busy: the per-connection reads return, the connections end, and the
// serving call returns once it is shut down.
func genServeCtx(g *Gen, prop string, tier string) *LifeScenario {
	s := &LifeScenario{Prop: prop, Config: genConfig(g), Scripts: map[int]Script{}, Cancels: true}
	s.Service = genService(g, 1+g.IntN(2), "unix:@servectx")
	s.Rounds = []RoundSpec{{UseBind: g.Pct(50)}}
	if s.Rounds[0].UseBind && g.Pct(40) {
		s.Rounds[0].BindCtx = "bg"
	}
	if prop == "C15" {
		// with an idle timeout: once the connections are gone the service stops by itself
		s.Rounds[0].TimeoutNs = int64(1+g.IntN(50)) * 1e6
	}
	s.CancelHow = g.Pick("expire", "expire", "sim-cancel", "")
	nClients := 1 + g.IntN(3)
	s.Ctl = [][]CtlOp{{{Wait: g.Pick(sf("accepted:%d", nClients), sf("accepted:%d,quiescent", nClients), sf("accepted:%d,sleep:%d", nClients, g.IntN(3000)), "accepted:1"), Op: "cancel", Arg: 0}}}
	cid := 0
	for c := 0; c < nClients; c++ {
		cs := genLifeClient(g, s, &cid, true)
		if g.Pct(40) {
			// mid-frame when the context ends
			for len(cs.Frames) < 2 {
				cid++
				cs.Frames = append(cs.Frames, FrameSpec{Cid: cid, Text: callFrame("org.varlink.service.GetInfo", "", false, false, false, nil)})
			}
			cs.Cuts, cs.PauseUs = nil, nil
			cs.StopAfter = len(cs.Frames[0].Text) + 1 + 1 + g.IntN(len(cs.Frames[1].Text)-1)
		}
		// they stay for three quiet points: the end of the context has settled
		// before the clients go away by themselves
		cs.End, cs.QuietPoints = "close", 3
		s.Clients = append(s.Clients, cs)
	}
	return s
}

// genAcceptFaults: one scenario in eight also meets failing accept(2) calls
// (a generator of its own, so that the other scenarios stay what they were).
func genAcceptFaults(seed uint64, s *LifeScenario) {
	g := NewGen(seed, 0xACCE)
	if g.IntN(8) != 0 {
		return
	}
	for _, ops := range s.Ctl {
		for _, op := range ops {
			if op.Op == "bind2" || op.Op == "listen2" {
				// whether a second bind is refused depends on the first serving call
				// still running, which an accept failure may have ended
				return
			}
		}
	}
	s.AcceptFaults = true
	s.Config.AcceptErrPct = []int{10, 30, 60, 100}[g.IntN(4)]
	s.Config.AcceptErrMax = 1 + g.IntN(3)
}

func genC14(seed uint64, tier string) Scenario {
	g := NewGen(seed, 0xC14)
	s := &LifeScenario{Prop: "C14", Config: genConfig(g), Scripts: map[int]Script{}}
	// life-cycle races need statement-level preemption most of the time
	if g.Pct(70) {
		s.Config.YieldDensity = 2 + g.IntN(2)
	}
	s.Service = genService(g, 1+g.IntN(2), g.Pick("unix:@c14", "tcp:127.0.0.1:4114", "unix:@c14;x=y"))
	nRounds := 1
	if g.Pct(65) {
		nRounds = 2
	}
	if g.Pct(10) {
		nRounds = 3
	}
	for r := 0; r < nRounds; r++ {
		s.Rounds = append(s.Rounds, RoundSpec{UseBind: g.Pct(50)})
		if s.Rounds[r].UseBind && g.Pct(30) {
			s.Rounds[r].BindCtx = "bg"
		}
	}
	var ops []CtlOp
	second := g.Pct(15)
	for r := 0; r < nRounds; r++ {
		prefix := ""
		if r > 0 {
			prefix = sf("ev:round.start:%d,", r+1)
		}
		first := true
		wait := func(tr string) string {
			if first {
				first = false
				return strings.TrimSuffix(prefix+tr, ",")
			}
			return tr
		}
		if !second && g.Pct(25) {
			ops = append(ops, CtlOp{Wait: wait("acceptblocked"), Op: g.Pick("bind2", "listen2")})
		}
		if g.Pct(12) {
			ops = append(ops, CtlOp{Wait: wait(genShutdownTrigger(g)), Op: "cancel", Arg: r})
			s.Cancels = true
		}
		if g.Pct(10) {
			ops = append(ops, CtlOp{Wait: wait(genShutdownTrigger(g)), Op: "getlistener", Arg: r})
		}
		if g.Pct(75) {
			ops = append(ops, CtlOp{Wait: wait(genShutdownTrigger(g)), Op: "shutdown"})
			if g.Pct(10) {
				ops = append(ops, CtlOp{Op: "shutdown"})
			}
		}
	}
	s.Ctl = append(s.Ctl, ops)
	if second {
		s.Ctl = append(s.Ctl, []CtlOp{{Wait: genShutdownTrigger(g), Op: "shutdown"}})
	}
	cid := 0
	nClients := g.IntN(2 + 2*deeper(tier))
	for c := 0; c < nClients; c++ {
		cs := genLifeClient(g, s, &cid, g.Pct(50))
		switch g.IntN(10) {
		case 0, 1, 2, 3, 4:
		case 5:
			cs.Wait = "ev:shutdown.return:1"
		case 6, 7:
			cs.Wait = "ev:serve.return:1,bound"
		case 8:
			cs.StartUs = g.IntN(3000)
		default:
			cs.Wait = sf("acceptcalls:+%d", 1+g.IntN(2))
		}
		switch g.IntN(10) {
		case 0:
			cs.End = "abort"
		case 1:
			cs.End = "close-now"
		case 2:
			if n := len(cs.stream()); n > 1 {
				cs.StopAfter = 1 + g.IntN(n-1)
			}
			cs.End = g.Pick("abort", "close-now", "close")
		case 3:
			cs.NoRead = true
		}
		s.Clients = append(s.Clients, cs)
	}
	if s.Cancels {
		s.CancelHow = g.Pick("", "", "expire", "sim-cancel")
	}
	if s.Cancels && g.Pct(40) {
		// a connection that is mid-frame when the context is cancelled: one complete
		// call and the beginning of the next in a single write, then silence
		cs := genLifeClient(g, s, &cid, true)
		for len(cs.Frames) < 2 {
			cid++
			cs.Frames = append(cs.Frames, FrameSpec{Cid: cid, Text: callFrame("org.varlink.service.GetInfo", "", false, false, false, nil)})
		}
		cs.Cuts, cs.PauseUs = nil, nil
		cs.StopAfter = len(cs.Frames[0].Text) + 1 + 1 + g.IntN(len(cs.Frames[1].Text)-1)
		cs.End = "close"
		// it stays for three quiet points: the cancellation (which may itself be
		// triggered by the first one) has settled before the client goes away
		cs.QuietPoints = 3
		s.Clients = append(s.Clients, cs)
	}
	if !s.Cancels && !second && g.Pct(6) {
		// a round that never gets as far as serving - the address is held by somebody
		// else, or Shutdown comes after Bind and no serving call follows - and then
		// an ordinary one: the service object is as good as new
		s.Rounds = []RoundSpec{{UseBind: g.Pct(50), Special: g.Pick("held", "bindonly")}, {UseBind: g.Pct(50)}}
		if s.Rounds[0].Special == "bindonly" {
			s.Rounds[0].UseBind = true
			if NewGen(seed, 0xD011).IntN(2) == 0 {
				// (a generator of its own: the scenarios of the other seeds stay what they were)
				s.Rounds[0].Special = "nobind"
			}
		}
		s.Ctl = [][]CtlOp{nil}
		if g.Pct(60) {
			s.Ctl = [][]CtlOp{{{Wait: "ev:round.start:2,acceptblocked," + genShutdownTrigger(g), Op: "shutdown"}}}
		}
		s.Clients = nil
		for c, n := 0, 1+g.IntN(2); c < n; c++ {
			cs := genLifeClient(g, s, &cid, true)
			cs.Wait = "ev:round.start:2,acceptblocked"
			s.Clients = append(s.Clients, cs)
		}
		return s
	}
	defer genAcceptFaults(seed, s)
	if !s.Cancels && !second && g.Pct(12) {
		// accounting across rounds: a Shutdown that finds a connection open, then a
		// round with an idle timeout whose holder connection must keep it alive
		s.Rounds = []RoundSpec{{UseBind: g.Pct(50)}, {UseBind: g.Pct(50), TimeoutNs: int64(1+g.IntN(20)) * 1e6}}
		s.Ctl = [][]CtlOp{{{Wait: "accepted:1", Op: "shutdown"}}}
		s.Clients = nil
		first := genLifeClient(g, s, &cid, true)
		first.Cuts, first.PauseUs = nil, nil
		s.Clients = append(s.Clients, first)
		to1 := int(s.Rounds[1].TimeoutNs / 1000)
		h := genLifeClient(g, s, &cid, true)
		h.Cuts, h.PauseUs = nil, nil
		h.Wait, h.MustServe = "ev:serve.return:1,bound", true
		l := genLifeClient(g, s, &cid, true)
		l.Wait, l.MustServe = "ev:serve.return:1,bound", true
		l.StartUs = 1 + to1 + g.IntN(3*to1+1)
		s.Clients = append(s.Clients, h, l)
	}
	return s
}

func genC15(seed uint64, tier string) Scenario {
	if g0 := NewGen(seed, 0xC15A); g0.IntN(24) == 0 {
		return genServeCtx(g0, "C15", tier)
	}
	g := NewGen(seed, 0xC15)
	s := &LifeScenario{Prop: "C15", Config: genConfig(g), Scripts: map[int]Script{}}
	if g.Pct(50) {
		s.Config.YieldDensity = 2 + g.IntN(2)
	}
	s.Service = genService(g, 1+g.IntN(2), g.Pick("unix:@c15", "tcp:[::1]:4115"))
	timeouts := []int64{1e6, 2e6, 5e6, 50e6, 1e9, 3600e9, 24 * 3600e9}
	to := timeouts[g.IntN(len(timeouts))]
	if g.Pct(25) {
		to = int64(1+g.IntN(20000)) * 1e3
	}
	nRounds := 1
	if g.Pct(50) {
		nRounds = 2
	}
	for r := 0; r < nRounds; r++ {
		rt := to
		if g.Pct(15) {
			rt = 0 // control class: never stops by itself
		}
		s.Rounds = append(s.Rounds, RoundSpec{UseBind: g.Pct(50), TimeoutNs: rt})
	}
	s.Ctl = append(s.Ctl, nil)
	if g.Pct(15) {
		// an explicit Shutdown somewhere in round 0
		s.Ctl[0] = append(s.Ctl[0], CtlOp{Wait: genShutdownTrigger(g), Op: "shutdown"})
	}
	scripted := len(s.Ctl[0]) > 0
	cid := 0
	toUs := int(s.Rounds[0].TimeoutNs / 1000)
	rel := func() int {
		// an instant relative to the timeout
		if toUs == 0 {
			return g.IntN(5000)
		}
		switch g.IntN(6) {
		case 0:
			return g.IntN(toUs)
		case 1:
			return toUs - 1
		case 2:
			return toUs + 1 + g.IntN(toUs)
		case 3:
			return toUs * (2 + g.IntN(4))
		case 4:
			return toUs/2 + g.IntN(toUs)
		default:
			return 1 + g.IntN(3*toUs)
		}
	}
	holder := g.Pct(55)
	if holder {
		// a well-behaved connection that stays open until everything went quiet
		cs := genLifeClient(g, s, &cid, true)
		cs.Cuts, cs.PauseUs = nil, nil
		for i := range cs.Frames {
			// the holder's handlers never fail
			if sc, ok := s.Scripts[cs.Frames[i].Cid]; ok {
				for j := range sc.Actions {
					if sc.Actions[j].Op == "fail" {
						sc.Actions[j].Op = "reply"
					}
				}
			}
		}
		cs.MustServe = !scripted
		s.Clients = append(s.Clients, cs)
	}
	nClients := g.IntN(2 + 2*deeper(tier))
	for c := 0; c < nClients; c++ {
		cs := genLifeClient(g, s, &cid, g.Pct(60))
		switch g.IntN(8) {
		case 0, 1:
			// dials at once
			cs.MustServe = !scripted
		case 2, 3, 4:
			cs.StartUs = 1 + rel()
			cs.MustServe = !scripted && (holder || toUs == 0 || cs.StartUs < toUs)
		case 5:
			cs.Wait = "ev:serve.return:1"
			cs.StartUs = g.IntN(100)
		case 6:
			cs.Wait = "ev:serve.return:1,bound"
		default:
			cs.StartUs = 1 + rel()
			cs.HoldUs = 1 + rel()
			cs.MustServe = !scripted && (holder || toUs == 0 || cs.StartUs < toUs)
		}
		switch g.IntN(10) {
		case 0:
			cs.End = "abort"
		case 1:
			cs.End = "close-now"
		case 2:
			if n := len(cs.stream()); n > 1 {
				cs.StopAfter = 1 + g.IntN(n-1)
			}
			cs.End = g.Pick("abort", "close-now", "close")
		}
		s.Clients = append(s.Clients, cs)
	}
	// the second round has obligations of its own: whatever the first left behind
	// (a Shutdown with a connection still open, say) must not make it stop while
	// a connection is open
	if nRounds == 2 && s.Rounds[1].TimeoutNs > 0 && g.Pct(60) {
		to1 := int(s.Rounds[1].TimeoutNs / 1000)
		h := genLifeClient(g, s, &cid, true)
		h.Cuts, h.PauseUs = nil, nil
		h.Wait = "ev:serve.return:1,bound"
		h.MustServe = !scripted // a scripted Shutdown with a relative trigger may land in this round
		s.Clients = append(s.Clients, h)
		l := genLifeClient(g, s, &cid, true)
		l.Wait = "ev:serve.return:1,bound"
		l.StartUs = 1 + to1 + g.IntN(3*to1+1)
		l.MustServe = !scripted
		s.Clients = append(s.Clients, l)
		immediate := false
		for _, c := range s.Clients {
			if c.Wait == "" && c.StartUs == 0 {
				immediate = true // accepted in round 0 for certain: the Shutdown below lands there
			}
		}
		if g.Pct(50) && !scripted && immediate {
			// end round 0 by a Shutdown that finds a connection open
			// (absolute count: the connection may already be accepted when the controller starts waiting)
			s.Ctl[0] = append(s.Ctl[0], CtlOp{Wait: "accepted:1", Op: "shutdown"})
			for i := range s.Clients {
				if s.Clients[i].Wait == "" {
					s.Clients[i].MustServe = false
				}
			}
		}
	}
	genAcceptFaults(seed, s)
	if g.Pct(15) {
		s.Config.StallPct = 1 + g.IntN(3)
		s.Stalled = true
		// a stall may jump hours: generous reply deadlines would expire mid-write
		for cid, sc := range s.Scripts {
			for i := range sc.Actions {
				sc.Actions[i].DeadlineUs = 0
			}
			s.Scripts[cid] = sc
		}
	}
	return s
}
