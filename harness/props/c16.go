package props

import (
	"encoding/json"

	"verifharness/sim"
)

// C16 — no data races in the library under its intended concurrent use.
//
// The workloads of the life-cycle, protocol and cancellation properties run in
// a -race build; the scheduler's own handoffs are hidden from the detector
// (DESIGN.md §2.7), so what it reports is the library's own synchronisation
// over a serialised, replayable schedule. The inner scenarios' functional
// oracles are not evaluated here (they belong to their own properties); only
// panics and race reports count.

// RaceScenario wraps a scenario of another family.
type RaceScenario struct {
	Family string          `json:"family"`
	Inner  json.RawMessage `json:"inner"`
	// Judge: the inner scenario's oracles are evaluated (a property whose
	// scenarios come from several families); false for C16, where only race
	// reports and panics count.
	Judge bool `json:"judge,omitempty"`

	sc Scenario
}

func (r *RaceScenario) inner() Scenario {
	if r.sc == nil {
		var err error
		switch r.Family {
		case "life":
			r.sc, err = decodeLife(r.Inner)
		case "proto":
			r.sc, err = decodeProto(r.Inner)
		default:
			if d, ok := raceFamilies[r.Family]; ok {
				r.sc, err = d(r.Inner)
			} else {
				panic("unknown family " + r.Family)
			}
		}
		if err != nil {
			panic(err)
		}
	}
	return r.sc
}

var raceFamilies = map[string]func(json.RawMessage) (Scenario, error){}

func (r *RaceScenario) Cfg() sim.Config     { return r.inner().Cfg() }
func (r *RaceScenario) Setup(k *sim.Kernel) { r.inner().Setup(k) }
func (r *RaceScenario) Check(k *sim.Kernel) []sim.Violation {
	if r.Judge {
		return r.inner().Check(k)
	}
	return nil
}
func (r *RaceScenario) PostDrain(k *sim.Kernel, left []string) []sim.Violation {
	if r.Judge {
		return r.inner().PostDrain(k, left)
	}
	return nil
}
func (r *RaceScenario) NonTrivial(k *sim.Kernel) bool { return r.inner().NonTrivial(k) }

// Forgive is the wrapped scenario's.
func (r *RaceScenario) Forgive(k *sim.Kernel, v sim.Violation) bool {
	if f, ok := r.inner().(interface {
		Forgive(k *sim.Kernel, v sim.Violation) bool
	}); ok {
		return f.Forgive(k, v)
	}
	return false
}
func (r *RaceScenario) Shrinks() []Scenario {
	var out []Scenario
	for _, c := range r.inner().Shrinks() {
		w := wrapRace(r.Family, c)
		w.Judge = r.Judge
		out = append(out, w)
	}
	return out
}

func wrapRace(family string, sc Scenario) *RaceScenario {
	raw, err := json.Marshal(sc)
	if err != nil {
		panic(err)
	}
	return &RaceScenario{Family: family, Inner: raw, sc: sc}
}

// wrapMix wraps a scenario of another family whose own oracles count.
func wrapMix(family string, sc Scenario) *RaceScenario {
	w := wrapRace(family, sc)
	w.Judge = true
	return w
}

// decodeEither decodes a wrapped scenario (it has a "family" member) or a plain one.
func decodeEither(plain func(json.RawMessage) (Scenario, error)) func(json.RawMessage) (Scenario, error) {
	return func(raw json.RawMessage) (Scenario, error) {
		var probe struct {
			Family string `json:"family"`
		}
		if json.Unmarshal(raw, &probe) == nil && probe.Family != "" {
			return decodeRace(raw)
		}
		return plain(raw)
	}
}

func decodeRace(raw json.RawMessage) (Scenario, error) {
	var r RaceScenario
	if err := json.Unmarshal(raw, &r); err != nil {
		return nil, err
	}
	return &r, nil
}

func init() {
	register(&Property{ID: "C16", Gen: genC16, Decode: decodeRace})
}

func genC16(seed uint64, tier string) Scenario {
	g := NewGen(seed, 0xC16)
	switch k := g.IntN(16); {
	case k >= 10 && k < 13:
		// cancelled and expiring operations, helper goroutines, buffer reuse
		return wrapRace("stream", genC17Stream(seed, tier))
	case k == 13:
		return wrapRace("e2e", genC03(seed, tier))
	case k == 14:
		return wrapRace("client", genC11(seed, tier))
	case k == 15:
		return wrapRace("reg", genC13(seed, tier))
	case k < 5:
		// life-cycle histories with registration attempts and GetListener calls
		// concurrent with serving and with client connections
		s := genC14(seed, tier).(*LifeScenario)
		s.Prop = "C16"
		// A second Bind/Listen concurrent with the END of a serving call is not among
		// the concurrent uses the property lists (Shutdown, GetListener and
		// RegisterInterface attempts next to a running Listen/DoListen): Bind's
		// unlocked writes of protocol/address would race with teardown there. Those
		// steps belong to C14 and are taken out of the race workload.
		for i := range s.Ctl {
			kept := s.Ctl[i][:0]
			for _, op := range s.Ctl[i] {
				if op.Op != "bind2" && op.Op != "listen2" {
					kept = append(kept, op)
				}
			}
			s.Ctl[i] = kept
		}
		extra := []CtlOp{}
		n := 1 + g.IntN(3)
		for i := 0; i < n; i++ {
			extra = append(extra, CtlOp{Wait: genShutdownTrigger(g), Op: g.Pick("register", "getlistener", "register"), Arg: 100 + i})
		}
		if g.Pct(35) {
			// Shutdown as soon as a connection shows up, then a registration at once: it
			// must not slip in between the accept and the moment the connection counts
			extra = append(extra, CtlOp{Wait: g.Pick("dialed:+1", "accepted:+1", "dialed:+2"), Op: "shutdown"}, CtlOp{Op: "register", Arg: 200}, CtlOp{Op: "register", Arg: 201})
		}
		s.Ctl = append(s.Ctl, extra)
		return wrapRace("life", s)
	case k < 7:
		s := genC15(seed, tier).(*LifeScenario)
		s.Prop = "C16"
		s.Ctl = append(s.Ctl, []CtlOp{{Wait: genShutdownTrigger(g), Op: g.Pick("register", "getlistener"), Arg: 100}})
		return wrapRace("life", s)
	case k < 9:
		s := genC10Proto(seed, tier).(*ProtoScenario)
		s.Prop = "C16"
		return wrapRace("proto", s)
	default:
		s := genC01(seed, tier).(*ProtoScenario)
		s.Prop = "C16"
		return wrapRace("proto", s)
	}
}
