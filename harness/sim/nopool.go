package sim

import (
	"encoding/base64"
	"reflect"
	"sort"
	"strconv"
	"strings"
	"unicode/utf8"
)

// Formatting helpers for code that runs in TASK context (scenario actors,
// scripted handlers). They avoid fmt and encoding/json on purpose: those
// packages recycle their state through sync.Pool, and a pooled object handed
// from one goroutine to another is a happens-before edge for the race
// detector. The harness must not add such edges between the goroutines whose
// accesses to library state it wants the detector to judge (C16): with one P
// the reuse is systematic and would hide, for example, a handler's unlocked
// read from a controller's write. strconv, strings and reflect (plain field
// walks) involve no synchronisation.

func appendJSONString(b []byte, s string) []byte {
	const hex = "0123456789abcdef"
	b = append(b, '"')
	for i := 0; i < len(s); {
		c := s[i]
		if c < utf8.RuneSelf {
			switch {
			case c == '"' || c == '\\':
				b = append(b, '\\', c)
			case c == '\n':
				b = append(b, '\\', 'n')
			case c == '\r':
				b = append(b, '\\', 'r')
			case c == '\t':
				b = append(b, '\\', 't')
			case c < 0x20 || c == 0x7f:
				b = append(b, '\\', 'u', '0', '0', hex[c>>4], hex[c&15])
			default:
				b = append(b, c)
			}
			i++
			continue
		}
		r, size := utf8.DecodeRuneInString(s[i:])
		if r == utf8.RuneError && size == 1 {
			b = append(b, `�`...)
			i++
			continue
		}
		if r == 0x2028 || r == 0x2029 {
			b = append(b, '\\', 'u', '2', '0', '2', hex[r&15])
			i += size
			continue
		}
		b = append(b, s[i:i+size]...)
		i += size
	}
	return append(b, '"')
}

func jsonName(f reflect.StructField) (string, bool, bool) {
	tag := f.Tag.Get("json")
	if tag == "-" {
		return "", false, false
	}
	name, omit := f.Name, false
	if tag != "" {
		parts := strings.Split(tag, ",")
		if parts[0] != "" {
			name = parts[0]
		}
		for _, p := range parts[1:] {
			if p == "omitempty" {
				omit = true
			}
		}
	}
	return name, omit, true
}

func isEmptyValue(v reflect.Value) bool {
	switch v.Kind() {
	case reflect.String, reflect.Slice, reflect.Map, reflect.Array:
		return v.Len() == 0
	case reflect.Bool:
		return !v.Bool()
	case reflect.Int, reflect.Int8, reflect.Int16, reflect.Int32, reflect.Int64:
		return v.Int() == 0
	case reflect.Uint, reflect.Uint8, reflect.Uint16, reflect.Uint32, reflect.Uint64, reflect.Uintptr:
		return v.Uint() == 0
	case reflect.Interface, reflect.Ptr:
		return v.IsNil()
	}
	return false
}

func appendJSONValue(b []byte, v reflect.Value) []byte {
	switch v.Kind() {
	case reflect.Invalid:
		return append(b, "null"...)
	case reflect.Interface, reflect.Ptr:
		if v.IsNil() {
			return append(b, "null"...)
		}
		return appendJSONValue(b, v.Elem())
	case reflect.String:
		return appendJSONString(b, v.String())
	case reflect.Bool:
		return strconv.AppendBool(b, v.Bool())
	case reflect.Int, reflect.Int8, reflect.Int16, reflect.Int32, reflect.Int64:
		return strconv.AppendInt(b, v.Int(), 10)
	case reflect.Uint, reflect.Uint8, reflect.Uint16, reflect.Uint32, reflect.Uint64, reflect.Uintptr:
		return strconv.AppendUint(b, v.Uint(), 10)
	case reflect.Float32, reflect.Float64:
		return strconv.AppendFloat(b, v.Float(), 'g', -1, 64)
	case reflect.Slice, reflect.Array:
		if v.Kind() == reflect.Slice && v.IsNil() {
			return append(b, "null"...)
		}
		if v.Type().Elem().Kind() == reflect.Uint8 {
			// []byte as base64, like encoding/json
			raw := make([]byte, v.Len())
			reflect.Copy(reflect.ValueOf(raw), v)
			b = append(b, '"')
			b = append(b, base64.StdEncoding.EncodeToString(raw)...)
			return append(b, '"')
		}
		b = append(b, '[')
		for i := 0; i < v.Len(); i++ {
			if i > 0 {
				b = append(b, ',')
			}
			b = appendJSONValue(b, v.Index(i))
		}
		return append(b, ']')
	case reflect.Map:
		if v.IsNil() {
			return append(b, "null"...)
		}
		keys := v.MapKeys()
		sort.Slice(keys, func(i, j int) bool { return keys[i].String() < keys[j].String() })
		b = append(b, '{')
		for i, k := range keys {
			if i > 0 {
				b = append(b, ',')
			}
			b = appendJSONString(b, k.String())
			b = append(b, ':')
			b = appendJSONValue(b, v.MapIndex(k))
		}
		return append(b, '}')
	case reflect.Struct:
		b = append(b, '{')
		first := true
		var walk func(v reflect.Value)
		walk = func(v reflect.Value) {
			t := v.Type()
			for i := 0; i < t.NumField(); i++ {
				f := t.Field(i)
				if f.Anonymous && f.Type.Kind() == reflect.Struct && f.Tag.Get("json") == "" {
					walk(v.Field(i))
					continue
				}
				if f.PkgPath != "" {
					continue
				}
				name, omit, ok := jsonName(f)
				if !ok || omit && isEmptyValue(v.Field(i)) {
					continue
				}
				if !first {
					b = append(b, ',')
				}
				first = false
				b = appendJSONString(b, name)
				b = append(b, ':')
				b = appendJSONValue(b, v.Field(i))
			}
		}
		walk(v)
		return append(b, '}')
	}
	panic("nopool: cannot encode kind " + v.Kind().String())
}

// JSON renders v as JSON text without encoding/json (see above). It
// covers what the harness records: structs with json tags, maps with string
// keys, slices, strings, numbers, booleans, []byte.
func JSON(v interface{}) string {
	return string(appendJSONValue(nil, reflect.ValueOf(v)))
}

// Sf is a pool-free Sprintf for the verbs the harness uses in task context:
// %d %s %v %q (JSON quoting) %t %x.
func Sf(format string, a ...interface{}) string {
	var b []byte
	ai := 0
	for i := 0; i < len(format); i++ {
		c := format[i]
		if c != '%' || i+1 >= len(format) {
			b = append(b, c)
			continue
		}
		i++
		verb := format[i]
		if verb == '%' {
			b = append(b, '%')
			continue
		}
		if ai >= len(a) {
			b = append(b, "%!missing"...)
			continue
		}
		arg := a[ai]
		ai++
		switch verb {
		case 'q':
			b = appendJSONString(b, Sp(arg))
		case 'x':
			switch x := arg.(type) {
			case uint64:
				b = strconv.AppendUint(b, x, 16)
			case int:
				b = strconv.AppendInt(b, int64(x), 16)
			default:
				b = append(b, Sp(arg)...)
			}
		default:
			b = append(b, Sp(arg)...)
		}
	}
	return string(b)
}

// Sp is a pool-free Sprint for one value.
func Sp(arg interface{}) string {
	switch x := arg.(type) {
	case nil:
		return "<nil>"
	case string:
		return x
	case []byte:
		return string(x)
	case bool:
		return strconv.FormatBool(x)
	case int:
		return strconv.Itoa(x)
	case int32:
		return strconv.FormatInt(int64(x), 10)
	case int64:
		return strconv.FormatInt(x, 10)
	case uint64:
		return strconv.FormatUint(x, 10)
	case uint32:
		return strconv.FormatUint(uint64(x), 10)
	case error:
		return x.Error()
	}
	return JSON(arg)
}

// Atoi parses a decimal number (0 on error), pool-free.
func Atoi(s string) int {
	n, _ := strconv.Atoi(s)
	return n
}
