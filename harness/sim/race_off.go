//go:build !race

package sim

// RaceBuild reports whether the binary was built with -race.
const RaceBuild = false

func raceOff() {}
func raceOn()  {}
