//go:build race

package sim

import "runtime"

// RaceBuild reports whether the binary was built with -race.
const RaceBuild = true

func raceOff() { runtime.RaceDisable() }
func raceOn()  { runtime.RaceEnable() }
