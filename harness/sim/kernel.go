// Package sim is the deterministic simulator: a kernel goroutine that owns
// all simulator state and takes every scheduling, timing, segmentation and
// fault decision from one PRNG (or a recorded tape), tasks that run real
// library code one at a time between hooks, a simulated clock (the
// testing/synctest bubble's), and a simulated socket namespace / stream
// transport.
//
// Discipline (DESIGN.md §2.2, §2.7): tasks never touch kernel state; they
// store a request in their own Task struct and park. Memory shared between
// kernel and tasks is only accessed in //go:norace functions with plain loads
// and stores, and the park/wake handoffs run with race synchronisation
// disabled, so that the race detector sees the library's own synchronisation
// and nothing else.
package sim

import (
	"fmt"
	"hash/fnv"
	"math/rand/v2"
	"runtime"
	"sort"
	"strconv"
	"strings"
	"sync"
	"testing/synctest"
	"time"
)

type state int32

const (
	stRunning state = iota // released, or woken by the library's own synchronisation
	stSyscall              // parked at a hook with a request
	stDone
)

type opcode int32

const (
	opStart opcode = iota
	opYield
	opSpawn
	opAcquire
	opTryAcquire
	opRelease
	opListen
	opDial
	opAccept
	opLnClose
	opLnSetDeadline
	opRead
	opWrite
	opClose
	opCloseRead
	opCloseWrite
	opAbort
	opSetRDL
	opSetWDL
	opSleep
	opAwait
	opRecord
	opCtxNew
	opCtxCancel
	opSetPolicy
	opChoose
	opEval
)

var opNames = [...]string{"start", "yield", "spawn", "acquire", "tryacquire", "release", "listen", "dial", "accept",
	"lnclose", "lnsetdl", "read", "write", "close", "closeread", "closewrite", "abort", "setrdl", "setwdl",
	"sleep", "await", "record", "ctxnew", "ctxcancel", "setpolicy", "choose", "eval"}

func (o opcode) String() string { return opNames[o] }

const maxDepth = 16

// request is written by a task (norace) and read by the kernel (norace).
type request struct {
	op   opcode
	site string
	ep   *Endpoint
	ln   *Listener
	b    []byte
	n    int
	s1   string
	s2   string
	t    time.Time
	d    time.Duration
	key  uintptr
	read bool
	cond Cond
	dctx *DeadlineCtx
}

// errno is the simulator's error vocabulary; tasks turn it into the error
// values the real net package would return.
type errno int32

const (
	eOK errno = iota
	eEOF
	eTimeout
	eMfile
	eNfile
	eConnAborted
	eClosed // use of closed network connection
	eReset
	ePipe
	eRefused
	eAddrInUse
	eDrain // the run is over
)

// result is written by the kernel (norace) and read by the task (norace).
type result struct {
	n    int
	err  errno
	b    []byte
	ep   *Endpoint
	ln   *Listener
	ok   bool
	seq  uint64
	task *Task
}

// Task is one goroutine running scenario or library code.
type Task struct {
	k     *Kernel
	path  [maxDepth]int32
	depth int32
	label string
	wake  chan struct{}

	// cross-boundary, norace accessors only
	state  state
	budget int32
	held   int32
	req    request
	res    result
	pmsg   string

	// kernel only
	id       string
	nchild   int32
	applied  bool
	ready    bool
	blocked  string
	lastSite string
	root     bool
	spawnSeq uint64
	doneSeq  uint64
	parent   *Task
}

// ID is the hierarchical task id, stable across runs.
func (t *Task) ID() string { return t.id }

// Label is the role of the task: the root name or the site of the go statement.
func (t *Task) Label() string { return t.label }

//go:norace
func (t *Task) loadState() state { return t.state }

//go:norace
func (t *Task) storeState(s state) { t.state = s }

//go:norace
func (t *Task) loadReq() request { return t.req }

//go:norace
func (t *Task) storeReq(r request) { t.req = r }

//go:norace
func (t *Task) loadRes() result { return t.res }

//go:norace
func (t *Task) storeRes(r result) { t.res = r }

//go:norace
func (t *Task) takeBudget() bool {
	if t.budget > 0 {
		t.budget--
		return true
	}
	return false
}

//go:norace
func (t *Task) setBudget(b int32) { t.budget = b }

//go:norace
func (t *Task) heldAdd(d int32) int32 { t.held += d; return t.held }

//go:norace
func (t *Task) loadHeld() int32 { return t.held }

//go:norace
func (t *Task) setPanic(s string) { t.pmsg = s }

//go:norace
func (t *Task) loadPanic() string { return t.pmsg }

// syscall stores the request and parks until the kernel releases the task.
//
//go:norace
func (t *Task) syscall(r request) result {
	t.storeReq(r)
	t.storeState(stSyscall)
	raceOff()
	<-t.wake
	raceOn()
	return t.loadRes()
}

// ---------------------------------------------------------------------------
// goroutine id -> task table (tasks only; the kernel never reads it)

type gslot struct {
	gid uint64
	t   *Task
}

const gtabSize = 1 << 13

var (
	gmu  sync.Mutex
	gtab [gtabSize]gslot
)

func curGID() uint64 {
	var buf [40]byte
	n := runtime.Stack(buf[:], false)
	// "goroutine 123 ["
	var id uint64
	for i := len("goroutine "); i < n; i++ {
		c := buf[i]
		if c < '0' || c > '9' {
			break
		}
		id = id*10 + uint64(c-'0')
	}
	return id
}

//go:norace
func gtabPut(gid uint64, t *Task) {
	i := gid % gtabSize
	for n := 0; n < gtabSize; n++ {
		if gtab[i].t == nil || gtab[i].gid == gid {
			gtab[i] = gslot{gid, t}
			return
		}
		i = (i + 1) % gtabSize
	}
	panic("sim: goroutine table full")
}

//go:norace
func gtabGet(gid uint64) *Task {
	i := gid % gtabSize
	for n := 0; n < gtabSize; n++ {
		if gtab[i].gid == gid {
			return gtab[i].t
		}
		if gtab[i].t == nil && gtab[i].gid == 0 {
			return nil
		}
		i = (i + 1) % gtabSize
	}
	return nil
}

//go:norace
func gtabDel(gid uint64) {
	i := gid % gtabSize
	for n := 0; n < gtabSize; n++ {
		if gtab[i].gid == gid {
			// tombstone: keep gid non-zero so probing continues past it
			gtab[i] = gslot{gid: ^uint64(0), t: nil}
			return
		}
		if gtab[i].t == nil && gtab[i].gid == 0 {
			return
		}
		i = (i + 1) % gtabSize
	}
}

//go:norace
func gtabReset() {
	for i := range gtab {
		gtab[i] = gslot{}
	}
}

func register(t *Task) uint64 {
	gid := curGID()
	raceOff()
	gmu.Lock()
	gtabPut(gid, t)
	gmu.Unlock()
	raceOn()
	return gid
}

func unregister(gid uint64) {
	raceOff()
	gmu.Lock()
	gtabDel(gid)
	gmu.Unlock()
	raceOn()
}

// Self returns the task of the calling goroutine, or nil.
func Self() *Task {
	gid := curGID()
	raceOff()
	gmu.Lock()
	t := gtabGet(gid)
	gmu.Unlock()
	raceOn()
	return t
}

// ---------------------------------------------------------------------------

// Event is one entry of the observation log that oracles read after the run.
type Event struct {
	Seq  uint64
	At   time.Duration
	Task string
	Kind string
	Data string
}

// Violation is what an oracle (or the kernel itself) reports.
type Violation struct {
	Clause string `json:"clause"`
	Key    string `json:"key"`
	Detail string `json:"detail"`
}

type event struct {
	at   time.Time
	seq  uint64
	name string
	fn   func()
	dead *bool
}

type eventHeap []*event

func (h eventHeap) less(i, j int) bool {
	if !h[i].at.Equal(h[j].at) {
		return h[i].at.Before(h[j].at)
	}
	return h[i].seq < h[j].seq
}

func (h *eventHeap) push(e *event) {
	*h = append(*h, e)
	i := len(*h) - 1
	for i > 0 {
		p := (i - 1) / 2
		if !h.less(i, p) {
			break
		}
		(*h)[i], (*h)[p] = (*h)[p], (*h)[i]
		i = p
	}
}

func (h *eventHeap) pop() *event {
	old := *h
	n := len(old)
	top := old[0]
	old[0] = old[n-1]
	*h = old[:n-1]
	i := 0
	for {
		l, r, m := 2*i+1, 2*i+2, i
		if l < n-1 && h.less(l, m) {
			m = l
		}
		if r < n-1 && h.less(r, m) {
			m = r
		}
		if m == i {
			break
		}
		(*h)[i], (*h)[m] = (*h)[m], (*h)[i]
		i = m
	}
	return top
}

type simMutex struct {
	owner   *Task
	readers map[*Task]int
	waiters []*Task
}

// Config is the per-run swarm configuration (all drawn from the run seed by
// the scenario generator, before the bubble is entered).
type Config struct {
	// Scheduler: 0 uniform random, 1 sticky, 2 round-robin-ish with rare switches.
	Sched int `json:"sched"`
	// StickPct: probability (percent) to continue the current task (Sched 1,2).
	StickPct int `json:"stick_pct"`
	// YieldDensity: 0 = park only at simulated I/O and locks; 1 = sparse; 2 = medium; 3 = every statement.
	YieldDensity int `json:"yield_density"`
	// MaxLatencyUs: upper bound of per-segment delivery latency (0 = always immediate).
	MaxLatencyUs int `json:"max_latency_us"`
	// Segmentation: 0 whole writes, 1 random cuts, 2 byte-at-a-time bias.
	Segmentation int `json:"segmentation"`
	// ShortReads: 0 full reads, 1 random prefix, 2 single byte bias.
	ShortReads int `json:"short_reads"`
	// PipeCap: capacity of each direction of a connection in bytes (0 = 64 KiB).
	PipeCap int `json:"pipe_cap"`
	// MaxSteps caps the run.
	MaxSteps int `json:"max_steps"`
	// StallPct > 0: with this probability per step every runnable task is stalled
	// until the next pending event (a loaded machine: the clock moves although
	// code is ready to run). Scenarios that set it give up their exact-time oracles.
	StallPct int `json:"stall_pct,omitempty"`
	// AcceptErrPct > 0: with this probability a call of Accept on a simulated
	// listener fails with a temporary, non-timeout error (EMFILE, ENFILE or
	// ECONNABORTED, as accept(2) does when the process is out of descriptors or
	// the peer went away in the backlog) — at once, or after having been blocked
	// for a while. At most AcceptErrMax (0 = 1) of them per run.
	AcceptErrPct int `json:"accept_err_pct,omitempty"`
	AcceptErrMax int `json:"accept_err_max,omitempty"`
}

// Kernel owns the whole simulated world of one run.
type Kernel struct {
	cfg     Config
	rng     *rand.Rand
	replay  bool
	tapeIn  []uint32
	tapePos int
	TapeOut []uint32

	tasks  []*Task
	cur    *Task
	events eventHeap
	evseq  uint64
	step   uint64
	start  time.Time

	ns        map[string]*Listener
	Listeners []*Listener
	Conns     []*Conn
	mutexes   map[uintptr]*simMutex
	ctxs      []*DeadlineCtx

	Log      []Event
	Viol     []Violation
	Counters map[string]int
	sites    map[string]struct{}
	switches map[string]struct{}

	traceHash  uint64
	sigHash    uint64
	nSwitch    int
	acceptErrs int
	traceLines []string
	KeepTrace  bool
	nondefault int

	closing  bool
	quiesced int
	// QuiesceSeqs are the sequence numbers at which the world was quiescent.
	QuiesceSeqs []uint64
	stopped     bool
	stopWhy     string
	Stuck       []string
	Invariant   func(k *Kernel) *Violation
	OnQuiesce   func(k *Kernel) bool // return true to continue the run (something was released)
	drainFns    []func()
	idle        []*Task // tasks waiting for quiescence
	awaiting    []awaiter
	// idle-cycle detection: a service with an idle timeout and an open
	// connection re-arms its accept deadline for ever; when nothing else has
	// happened between two expiries the world is quiescent modulo that cycle
	significant uint64
	// livelock detection: the step at which something observable last happened
	// (bytes moved, a log record, a connection event, the clock) and, since then,
	// how often each task was released
	lastProgress uint64
	spin         map[string]int
	// Livelock is set when the run hit the step cap after LivelockWindow steps
	// without any progress; SpinTask / SpinSite name the task released most often in them
	Livelock bool
	SpinTask string
	SpinSite string
	timeoutTask *Task
	idleCycle   bool
	nroots      int
	rootIDs     map[string]string
}

var theKernel *Kernel

// K returns the kernel of the current run (tasks use it for nothing but
// passing it back to kernel-side helpers).
func K() *Kernel { return theKernel }

// New creates the kernel of one run. It must be called inside the bubble.
func New(cfg Config, seed uint64, tape []uint32, replay bool) *Kernel {
	if cfg.MaxSteps == 0 {
		cfg.MaxSteps = 50000
	}
	if cfg.PipeCap == 0 {
		cfg.PipeCap = 64 << 10
	}
	k := &Kernel{
		cfg:      cfg,
		rng:      rand.New(rand.NewPCG(seed, 0x9e3779b97f4a7c15)),
		replay:   replay,
		tapeIn:   tape,
		ns:       map[string]*Listener{},
		mutexes:  map[uintptr]*simMutex{},
		Counters: map[string]int{},
		sites:    map[string]struct{}{},
		switches: map[string]struct{}{},
		start:    time.Now(),
	}
	k.traceHash = 14695981039346656037
	k.sigHash = 14695981039346656037
	gtabReset()
	theKernel = k
	return k
}

// Cfg returns the run configuration.
func (k *Kernel) Cfg() Config { return k.cfg }

// Draw takes one decision in [0,n). Kernel goroutine only.
func (k *Kernel) Draw(n int) int {
	if n <= 1 {
		return 0
	}
	var v int
	if k.replay {
		if k.tapePos < len(k.tapeIn) {
			v = int(k.tapeIn[k.tapePos]) % n
		}
		k.tapePos++
	} else {
		v = k.rng.IntN(n)
	}
	k.TapeOut = append(k.TapeOut, uint32(v))
	if v != 0 {
		k.nondefault++
	}
	return v
}

// DrawBias returns 0 with probability pct/100 and otherwise 1+Draw(n-1);
// value 0 is the default decision of an exhausted replay tape.
func (k *Kernel) DrawBias(n, pct int) int {
	if n <= 1 {
		return 0
	}
	if k.replay {
		return k.Draw(n)
	}
	// encode as one tape entry
	var v int
	if k.rng.IntN(100) < pct {
		v = 0
	} else {
		v = 1 + k.rng.IntN(n-1)
	}
	k.TapeOut = append(k.TapeOut, uint32(v))
	if v != 0 {
		k.nondefault++
	}
	return v
}

// Count increments a named counter.
func (k *Kernel) Count(name string) { k.Counters[name]++ }

// LivelockWindow: that many steps up to the step cap without progress are a livelock.
const LivelockWindow = 20000

func (k *Kernel) progressed() {
	k.lastProgress = k.step
	clear(k.spin)
}

// Seq is the global event sequence number (kernel step counter).
func (k *Kernel) Seq() uint64 { return k.step }

// Elapsed is the simulated time since the start of the run.
func (k *Kernel) Elapsed() time.Duration { return time.Since(k.start) }

func (k *Kernel) trace(format string, a ...any) {
	s := Sf(format, a...)
	h := k.traceHash
	for i := 0; i < len(s); i++ {
		h ^= uint64(s[i])
		h *= 1099511628211
	}
	h ^= '\n'
	h *= 1099511628211
	k.traceHash = h
	if k.KeepTrace {
		k.traceLines = append(k.traceLines, strconv.FormatUint(k.step, 10)+"\t"+k.Elapsed().String()+"\t"+s)
	} else {
		// keep a short tail for diagnostics
		if len(k.traceLines) >= 400 {
			copy(k.traceLines, k.traceLines[200:])
			k.traceLines = k.traceLines[:200]
		}
		k.traceLines = append(k.traceLines, strconv.FormatUint(k.step, 10)+"\t"+k.Elapsed().String()+"\t"+s)
	}
}

// Trace returns the retained trace lines.
func (k *Kernel) Trace() []string { return k.traceLines }

// TraceHash identifies the execution.
func (k *Kernel) TraceHash() string { return fmt.Sprintf("%016x", k.traceHash) }

// Signature identifies the interleaving: the sequence of (task label, site)
// pairs at which the running task changed, plus fault events.
func (k *Kernel) Signature() string { return fmt.Sprintf("%016x", k.sigHash) }

func (k *Kernel) sigMix(s string) {
	h := k.sigHash
	for i := 0; i < len(s); i++ {
		h ^= uint64(s[i])
		h *= 1099511628211
	}
	h ^= 0xff
	h *= 1099511628211
	k.sigHash = h
}

// Fault records that a fault of the given kind actually fired.
func (k *Kernel) Fault(kind string) {
	k.Counters["fault."+kind]++
	k.sigMix("F:" + kind)
}

// Violate records a violation found while the run proceeds.
func (k *Kernel) Violate(clause, key, detail string) {
	k.Viol = append(k.Viol, Violation{clause, key, detail})
	// the detail (stacks, addresses) is not part of the execution's identity
	k.trace("VIOLATION %s %s", clause, key)
}

// Stop ends the run after the current step.
func (k *Kernel) Stop(why string) {
	if !k.stopped {
		k.stopped = true
		k.stopWhy = why
	}
}

// Steps is the number of kernel steps taken.
func (k *Kernel) Steps() uint64 { return k.step }

// NonDefault is the number of decisions that differed from the default.
func (k *Kernel) NonDefault() int { return k.nondefault }

// Switches is the number of context switches.
func (k *Kernel) Switches() int { return k.nSwitch }

// DistinctSwitchPairs is the number of distinct (task label, site) switch points reached.
func (k *Kernel) DistinctSwitchPairs() []string {
	out := make([]string, 0, len(k.switches))
	for s := range k.switches {
		out = append(out, s)
	}
	sort.Strings(out)
	return out
}

// Sites returns the distinct yield sites at which a task was parked.
func (k *Kernel) Sites() []string {
	out := make([]string, 0, len(k.sites))
	for s := range k.sites {
		out = append(out, s)
	}
	sort.Strings(out)
	return out
}

// TaskInfo describes a live task (for oracles).
type TaskInfo struct {
	ID      string
	Label   string
	Root    bool
	Blocked string // "" = runnable or blocked in the library's own synchronisation
	InSim   bool   // parked at a simulator call that has not completed
	Site    string
}

// LiveTasks lists the tasks that have not finished.
func (k *Kernel) LiveTasks() []TaskInfo {
	var out []TaskInfo
	for _, t := range k.tasks {
		st := t.loadState()
		if st == stDone {
			continue
		}
		out = append(out, TaskInfo{ID: t.id, Label: t.label, Root: t.root, Blocked: t.blocked, InSim: st == stSyscall && !t.ready, Site: t.lastSite})
	}
	return out
}

// StopReason tells why the run ended.
func (k *Kernel) StopReason() string { return k.stopWhy }

// OnDrain registers a function the kernel calls when the run is over
// (typically a context cancel function).
func (k *Kernel) OnDrain(f func()) { k.drainFns = append(k.drainFns, f) }

// ---------------------------------------------------------------------------
// tasks

func pathLess(a, b *Task) bool {
	n := a.depth
	if b.depth < n {
		n = b.depth
	}
	for i := int32(0); i < n; i++ {
		if a.path[i] != b.path[i] {
			return a.path[i] < b.path[i]
		}
	}
	return a.depth < b.depth
}

func (k *Kernel) insertTask(t *Task) {
	var sb strings.Builder
	for i := int32(0); i < t.depth; i++ {
		if i > 0 {
			sb.WriteByte('.')
		}
		sb.WriteString(strconv.Itoa(int(t.path[i])))
	}
	t.id = sb.String()
	i := sort.Search(len(k.tasks), func(i int) bool { return pathLess(t, k.tasks[i]) })
	k.tasks = append(k.tasks, nil)
	copy(k.tasks[i+1:], k.tasks[i:])
	k.tasks[i] = t
}

// Spawn creates a root task. Only before Run, on the kernel goroutine.
func (k *Kernel) Spawn(name string, fn func()) *Task {
	t := &Task{k: k, label: name, wake: make(chan struct{}, 1), root: true}
	t.depth = 1
	t.path[0] = int32(k.nroots)
	k.nroots++
	k.insertTask(t)
	if k.rootIDs == nil {
		k.rootIDs = map[string]string{}
	}
	k.rootIDs[name] = t.id
	go t.run(fn)
	return t
}

// RootID returns the task id of the root task spawned under the given name ("" if none).
func (k *Kernel) RootID(name string) string { return k.rootIDs[name] }

func (t *Task) run(fn func()) {
	gid := register(t)
	defer func() {
		if r := recover(); r != nil {
			buf := make([]byte, 16<<10)
			n := runtime.Stack(buf, false)
			t.setPanic(Sf("%v\n%s", r, buf[:n]))
		}
		unregister(gid)
		t.storeState(stDone)
	}()
	t.syscall(request{op: opStart})
	fn()
}

// ---------------------------------------------------------------------------
// hooks (called on task goroutines through simhook.H)

// Hooks is the simhook.Hooks implementation.
type Hooks struct{ k *Kernel }

// HooksFor returns the hook object for k.
func HooksFor(k *Kernel) *Hooks { return &Hooks{k} }

func (h *Hooks) Yield(site string) {
	t := Self()
	if t == nil {
		return
	}
	if t.loadHeld() > 0 {
		return
	}
	if t.takeBudget() {
		return
	}
	t.syscall(request{op: opYield, site: site})
}

func (h *Hooks) Go(site string, fn func()) {
	t := Self()
	if t == nil {
		go fn()
		return
	}
	res := t.syscall(request{op: opSpawn, site: site})
	child := res.task
	go child.run(fn)
}

func (h *Hooks) Select(site string, n int) int {
	t := Self()
	if t == nil {
		return 0
	}
	if t.loadHeld() > 0 {
		return 0
	}
	res := t.syscall(request{op: opChoose, site: site, n: n})
	return res.n
}

func (h *Hooks) Acquire(m uintptr, read bool, site string) {
	t := Self()
	if t == nil {
		return
	}
	t.syscall(request{op: opAcquire, key: m, read: read, site: site})
	t.heldAdd(1)
}

func (h *Hooks) TryAcquire(m uintptr, read bool, site string) bool {
	t := Self()
	if t == nil {
		return true
	}
	res := t.syscall(request{op: opTryAcquire, key: m, read: read, site: site})
	if res.ok {
		t.heldAdd(1)
	}
	return res.ok
}

func (h *Hooks) Release(m uintptr, read bool, site string) {
	t := Self()
	if t == nil {
		return
	}
	if t.loadHeld() > 0 {
		t.heldAdd(-1)
	}
	t.syscall(request{op: opRelease, key: m, read: read, site: site})
}

// ---------------------------------------------------------------------------
// the kernel loop

func (k *Kernel) wait() {
	raceOff()
	synctest.Wait()
	raceOn()
}

func (k *Kernel) release(t *Task, budget int32) {
	t.applied = false
	t.ready = false
	t.blocked = ""
	t.setBudget(budget)
	t.storeState(stRunning)
	raceOff()
	t.wake <- struct{}{}
	raceOn()
}

func (k *Kernel) budget() int32 {
	switch k.cfg.YieldDensity {
	case 0:
		return 1 << 30
	case 1:
		tab := [...]int32{1 << 30, 1 << 30, 1 << 30, 200, 50, 20, 5, 1}
		return tab[k.Draw(len(tab))]
	case 2:
		tab := [...]int32{1 << 30, 100, 30, 10, 5, 3, 1, 0}
		return tab[k.Draw(len(tab))]
	default:
		tab := [...]int32{3, 2, 1, 0, 0, 0}
		return tab[k.Draw(len(tab))]
	}
}

// complete makes a blocked or just-applied task runnable with the given result.
func (k *Kernel) complete(t *Task, r result) {
	r.seq = k.step
	t.storeRes(r)
	t.ready = true
	t.blocked = ""
}

// After schedules fn on the kernel goroutine at simulated time now+d.
func (k *Kernel) After(d time.Duration, name string, fn func()) *event {
	if d < 0 {
		d = 0
	}
	return k.At(time.Now().Add(d), name, fn)
}

// At schedules fn at the given instant (immediately if it is in the past).
func (k *Kernel) At(at time.Time, name string, fn func()) *event {
	now := time.Now()
	if at.Before(now) {
		at = now
	}
	k.evseq++
	e := &event{at: at, seq: k.evseq, name: name, fn: fn}
	k.events.push(e)
	return e
}

func (k *Kernel) collect() {
	// tasks that reached a hook since the last step
	for i := 0; i < len(k.tasks); i++ {
		t := k.tasks[i]
		switch t.loadState() {
		case stDone:
			if msg := t.loadPanic(); msg != "" {
				msg = cloneString(msg)
				k.Log = append(k.Log, Event{k.step, k.Elapsed(), t.id, "panic", msg})
				k.Violate("no-panic", "task="+t.label+" "+panicKey(msg), msg)
				k.Stop("panic")
			}
			t.doneSeq = k.step
			k.trace("done %s", t.id)
			k.tasks = append(k.tasks[:i], k.tasks[i+1:]...)
			i--
			k.releaseAllLocksOf(t)
		case stSyscall:
			if !t.applied {
				t.applied = true
				k.apply(t)
			}
		}
	}
}

func panicKey(msg string) string {
	first := msg
	if i := strings.IndexByte(first, '\n'); i >= 0 {
		first = first[:i]
	}
	// innermost varlink frame
	fn := ""
	for _, ln := range strings.Split(msg, "\n") {
		if strings.HasPrefix(ln, "github.com/varlink/go/") && !strings.Contains(ln, "simhook") {
			fn = ln
			if i := strings.IndexByte(fn, '('); i >= 0 {
				fn = fn[:i]
			}
			break
		}
	}
	return Sf("%q at %s", first, fn)
}

func (k *Kernel) releaseAllLocksOf(t *Task) {
	// a finished task that still owns a lock leaves it locked, as in reality
}

func (k *Kernel) runnable() []*Task {
	var out []*Task
	if k.cur != nil && k.cur.ready && k.cur.loadState() == stSyscall {
		out = append(out, k.cur)
	}
	for _, t := range k.tasks {
		if t != k.cur && t.ready && t.loadState() == stSyscall {
			out = append(out, t)
		}
	}
	return out
}

func (k *Kernel) dueEvent() *event {
	for len(k.events) > 0 {
		e := k.events[0]
		if e.dead != nil && *e.dead {
			k.events.pop()
			continue
		}
		if !e.at.After(time.Now()) {
			return e
		}
		return nil
	}
	return nil
}

func (k *Kernel) choose(n int, curFirst bool) int {
	if n <= 1 {
		return 0
	}
	switch k.cfg.Sched {
	case 0:
		return k.Draw(n)
	default:
		if curFirst {
			return k.DrawBias(n, k.cfg.StickPct)
		}
		return k.Draw(n)
	}
}

// Run executes the simulation until quiescence, a violation that stops the
// run, or the step cap. Kernel goroutine (= the bubble's root goroutine).
func (k *Kernel) Run() {
	for {
		k.wait()
		k.collect()
		k.checkAwaiting()
		if k.Invariant != nil && !k.stopped {
			if v := k.Invariant(k); v != nil {
				k.Viol = append(k.Viol, *v)
				k.trace("VIOLATION %s %s", v.Clause, v.Key)
				k.Stop("invariant")
			}
		}
		if k.stopped {
			return
		}
		if int(k.step) >= k.cfg.MaxSteps {
			k.Stop("step-cap")
			k.Count("step_cap")
			if k.step-k.lastProgress >= LivelockWindow {
				k.Livelock = true
				best := -1
				for _, t := range k.tasks {
					if n := k.spin[t.id]; n > best {
						best, k.SpinTask, k.SpinSite = n, t.label, t.lastSite
					}
				}
				k.Count("livelock")
			}
			return
		}
		run := k.runnable()
		ev := k.dueEvent()
		n := len(run)
		if ev != nil {
			n++
		}
		if k.cfg.StallPct > 0 && len(run) > 0 && ev == nil && len(k.events) > 0 && k.Draw(100) < k.cfg.StallPct {
			// stall: nobody gets the CPU before the next event is due
			k.Fault("stall")
			k.trace("stall until %s", k.events[0].name)
			d := time.Until(k.events[0].at)
			raceOff()
			time.Sleep(d)
			raceOn()
			continue
		}
		if n == 0 {
			if len(k.events) > 0 {
				e := k.events[0]
				d := time.Until(e.at)
				k.Count("clock_jumps")
				k.progressed()
				raceOff()
				time.Sleep(d)
				raceOn()
				continue
			}
			if !k.quiesce() {
				return
			}
			continue
		}
		k.step++
		curFirst := len(run) > 0 && run[0] == k.cur
		idx := k.choose(n, curFirst)
		if idx == len(run) {
			// the event
			k.events.pop()
			k.trace("event %s", ev.name)
			if !strings.HasPrefix(ev.name, "accept-deadline") {
				k.significant++
			}
			ev.fn()
			if k.idleCycle {
				k.idleCycle = false
				other := false
				for _, e := range k.events {
					if (e.dead == nil || !*e.dead) && !strings.HasPrefix(e.name, "accept-deadline") {
						other = true
						break
					}
				}
				if len(k.runnable()) > 1 {
					other = true
				}
				if other {
					continue
				}
				if !k.quiesce() {
					return
				}
			}
			continue
		}
		t := run[idx]
		if t != k.cur {
			k.nSwitch++
			from := "-"
			if k.cur != nil {
				from = k.cur.label + "@" + k.cur.lastSite
			}
			pair := from + ">" + t.label + "@" + t.lastSite
			k.switches[pair] = struct{}{}
			k.sigMix(pair)
		}
		k.cur = t
		if t != k.timeoutTask {
			k.significant++
		}
		// nobody but the released task may pass a yield
		for _, o := range k.tasks {
			if o != t {
				o.setBudget(0)
			}
		}
		k.trace("run %s %s", t.id, t.lastSite)
		if k.spin == nil {
			k.spin = map[string]int{}
		}
		k.spin[t.id]++
		k.release(t, k.budget())
	}
}

// quiesce handles a quiescent world: tasks waiting for quiescence are
// released; if there are none the run is over. It reports whether the run continues.
func (k *Kernel) quiesce() bool {
	k.quiesced++
	k.QuiesceSeqs = append(k.QuiesceSeqs, k.step)
	k.trace("quiescent #%d", k.quiesced)
	if len(k.idle) > 0 {
		for _, t := range k.idle {
			k.complete(t, result{})
		}
		k.idle = nil
		k.significant++
		return true
	}
	if k.OnQuiesce != nil && k.OnQuiesce(k) {
		k.significant++
		return true
	}
	k.Stop("quiescent")
	return false
}

// Drain ends the run: the world closes (every blocked and every future
// simulated call fails, registered contexts are cancelled, events are
// dropped) and the remaining tasks are scheduled, still one at a time and
// without any decision, until all are done. It returns the tasks that could
// not finish; their goroutines stay blocked and the bubble will report a
// deadlock, which the caller recovers.
func (k *Kernel) Drain() []string {
	for _, t := range k.tasks {
		st := t.loadState()
		if st == stSyscall && !t.ready && t.blocked != "" {
			k.Stuck = append(k.Stuck, Sf("%s(%s) blocked in sim: %s", t.id, t.label, t.blocked))
		} else if st == stRunning {
			k.Stuck = append(k.Stuck, Sf("%s(%s) blocked in library synchronisation after %s", t.id, t.label, t.lastSite))
		}
	}
	k.closing = true
	k.events = nil
	k.idle = nil
	for _, t := range k.tasks {
		if t.loadState() == stSyscall && t.applied && !t.ready && !strings.HasPrefix(t.blocked, "mutex") {
			k.complete(t, result{err: eDrain})
		}
	}
	for _, f := range k.drainFns {
		f()
	}
	for _, c := range k.ctxs {
		c.fire(errCanceled)
	}
	for rounds := 0; rounds < 200000; rounds++ {
		k.wait()
		k.collect()
		k.events = nil
		run := k.runnable()
		if len(run) == 0 {
			break
		}
		t := run[0]
		k.cur = t
		k.release(t, 1<<30)
	}
	var left []string
	for _, t := range k.tasks {
		left = append(left, Sf("%s(%s) after %s [%s]", t.id, t.label, t.lastSite, t.blocked))
	}
	return left
}

//go:norace
func cloneString(s string) string {
	b := make([]byte, len(s))
	for i := 0; i < len(s); i++ {
		b[i] = s[i]
	}
	return string(b)
}

//go:norace
func cloneBytes(s []byte) []byte {
	b := make([]byte, len(s))
	for i := 0; i < len(s); i++ {
		b[i] = s[i]
	}
	return b
}

func hashString(s string) uint64 {
	h := fnv.New64a()
	h.Write([]byte(s))
	return h.Sum64()
}
