package sim

import (
	"context"
	"errors"
	"io"
	"net"
	"os"
	"sync"
	"sync/atomic"
	"syscall"
	"time"
)

// ---------------------------------------------------------------------------
// kernel-side objects

type readWait struct {
	t   *Task
	max int
}

type segment struct {
	b    []byte
	dead bool
}

// pipe is one direction of a connection. Kernel only.
type pipe struct {
	capacity int
	buf      []byte
	segs     []*segment
	inflight int
	lastAt   time.Time
	weof     bool // writer closed: EOF once everything is consumed
	rclosed  bool // reader closed: writes fail with EPIPE
	reset    bool
	// readers are the tasks blocked in Read on this direction. A socket may have
	// several (a helper goroutine left behind by a cancelled operation next to the
	// current one): arriving data goes to one of them, the kernel decides which.
	readers []readWait
	writer  *Task
	wrest   []byte
	wdone   int
	conn    *Conn
	dir     int

	Written   int // bytes accepted from the writer
	Delivered int
	Consumed  int
}

// Conn is a simulated stream connection.
type Conn struct {
	ID       int
	Network  string
	Addr     string
	Client   *Endpoint
	Server   *Endpoint
	DialSeq  uint64
	DialAt   time.Duration
	DialedBy string
	// AcceptSeq is the kernel sequence number at which Accept handed the
	// server end to the service (0 = never accepted).
	AcceptSeq uint64
	AcceptAt  time.Duration
	Lis       *Listener
}

// Endpoint is one end of a Conn. Tasks hold it as a net.Conn; all fields
// except tok are kernel-only.
type Endpoint struct {
	tokIdx int

	conn   *Conn
	Side   string // "client" or "server"
	in     *pipe
	out    *pipe
	Closed bool
	// CloseSeq is the kernel sequence at which this end was closed (0 = open).
	CloseSeq uint64
	CloseAt  time.Duration
	Aborted  bool
	rdl, wdl time.Time
	rdlGen   int
	wdlGen   int
	rClosed  bool // half close (pipe ends)
	wClosed  bool
	// Tap is every byte this end has written.
	Tap []byte
	// ReadLog is every byte this end's reader has been handed.
	ReadLog []byte
	// ShortReads / FullReads override the run configuration when set.
	ReadPolicy int
	// Users are the ids of the tasks that performed I/O on this end.
	Users []string
	// FirstIOSeq is the kernel sequence number of the first read or write on this end (0 = none).
	FirstIOSeq uint64
}

func (e *Endpoint) noteUser(t *Task) {
	if e.FirstIOSeq == 0 {
		e.FirstIOSeq = t.k.step
	}
	for _, u := range e.Users {
		if u == t.id {
			return
		}
	}
	e.Users = append(e.Users, t.id)
}

// UsedBy reports whether the task with the given id, or one of its
// descendants, performed I/O on this end.
func (e *Endpoint) UsedBy(id string) bool {
	for _, u := range e.Users {
		if u == id || (len(u) > len(id) && u[:len(id)] == id && u[len(id)] == '.') {
			return true
		}
	}
	return false
}

// Listener is a simulated listening socket.
type Listener struct {
	tokIdx int

	ID       int
	Network  string
	Address  string
	backlog  []*Endpoint
	Closed   bool
	CloseSeq uint64
	CloseAt  time.Duration
	dl       time.Time
	dlGen    int
	acceptor *Task
	// AcceptCalls counts calls of Accept; AcceptBlocked is true while a task is blocked in it.
	AcceptCalls   int
	AcceptBlocked bool
	AcceptSince   uint64
	Accepted      []*Conn
	Timeouts      int
	BindSeq       uint64
	// LastTimeoutOpen is the number of accepted connections whose server end was open at the last expiry.
	TimeoutLog []TimeoutRec

	// BoundBy / ClosedBy are the ids of the tasks that bound / closed the listener.
	BoundBy  string
	ClosedBy string
	// ClosedWhileAccepting: Close found a task blocked in Accept, which had been blocked since AcceptSinceAtClose.
	ClosedWhileAccepting bool
	AcceptSinceAtClose   uint64
	// OpenAtClose: accepted connections whose server end was open when the listener was closed.
	OpenAtClose int
	// AcceptLog records every Accept call (sequence number and simulated time).
	AcceptLog []AcceptRec
	Dialed    int

	hadTimeout   bool
	sigAtTimeout uint64

	// AcceptErrLog records every injected accept failure (Config.AcceptErrPct).
	AcceptErrLog []AcceptErrRec
	accGen       int
}

// AcceptErrRec is one injected failure of Accept.
type AcceptErrRec struct {
	Seq     uint64
	At      time.Duration
	Errno   string
	Blocked bool
	// OpenConn: accepted connections whose server end was open at that moment.
	OpenConn int
}

// AcceptRec is one call of Accept.
type AcceptRec struct {
	Seq uint64
	At  time.Duration
}

// TimeoutRec describes one accept-deadline expiry returned to the caller.
type TimeoutRec struct {
	Seq      uint64
	At       time.Duration
	OpenConn int
}

func nsKey(network, addr string) string { return network + "|" + addr }

// Conn returns the connection this endpoint belongs to.
func (e *Endpoint) Conn() *Conn { return e.conn }

// Peer returns the other end.
func (e *Endpoint) Peer() *Endpoint {
	if e == e.conn.Client {
		return e.conn.Server
	}
	return e.conn.Client
}

//go:norace
func appendNorace(dst, src []byte) []byte {
	n := len(dst)
	if cap(dst)-n < len(src) {
		nd := make([]byte, n, 2*cap(dst)+len(src))
		for i := 0; i < n; i++ {
			nd[i] = dst[i]
		}
		dst = nd
	}
	dst = dst[:n+len(src)]
	for i := 0; i < len(src); i++ {
		dst[n+i] = src[i]
	}
	return dst
}

func (k *Kernel) newConn(l *Listener) *Conn {
	c := &Conn{ID: len(k.Conns), Network: l.Network, Addr: l.Address, Lis: l, DialSeq: k.step}
	capacity := k.cfg.PipeCap
	up := &pipe{capacity: capacity, conn: c, dir: 0}
	down := &pipe{capacity: capacity, conn: c, dir: 1}
	c.Client = &Endpoint{conn: c, Side: "client", in: down, out: up, tokIdx: 2 * c.ID}
	c.Server = &Endpoint{conn: c, Side: "server", in: up, out: down, tokIdx: 2*c.ID + 1}
	k.Conns = append(k.Conns, c)
	return c
}

// NewPipePair creates a connection that is not in the socket namespace: the
// stdio pipes between a bridge client and its subprocess. Kernel goroutine,
// before Run.
func (k *Kernel) NewPipePair() *Conn {
	l := &Listener{Network: "pipe", Address: Sf("stdio%d", len(k.Conns))}
	c := k.newConn(l)
	c.AcceptSeq = 1
	return c
}

func (e *Endpoint) name() string { return Sf("c%d.%s", e.conn.ID, e.Side) }

// ---------------------------------------------------------------------------
// kernel: applying requests

func (k *Kernel) apply(t *Task) {
	r := t.loadReq()
	if r.site != "" {
		t.lastSite = r.site
	}
	if k.closing {
		switch r.op {
		case opStart, opYield, opRelease, opRecord, opCtxNew, opCtxCancel, opChoose, opEval:
		case opAcquire, opTryAcquire:
		case opSpawn:
		default:
			k.complete(t, result{err: eDrain})
			return
		}
	}
	switch r.op {
	case opStart:
		k.complete(t, result{})
	case opYield:
		k.sites[r.site] = struct{}{}
		k.complete(t, result{})
	case opSpawn:
		if t.depth >= maxDepth {
			panic("sim: task nesting too deep")
		}
		c := &Task{k: k, label: r.site, wake: make(chan struct{}, 1), parent: t}
		c.path = t.path
		c.path[t.depth] = t.nchild
		c.depth = t.depth + 1
		t.nchild++
		c.spawnSeq = k.step
		k.insertTask(c)
		k.trace("spawn %s by %s at %s", c.id, t.id, r.site)
		k.complete(t, result{task: c})
	case opAcquire, opTryAcquire:
		k.acquire(t, r)
	case opRelease:
		k.releaseLock(t, r)
	case opListen:
		k.listen(t, cloneString(r.s1), cloneString(r.s2))
	case opDial:
		k.dial(t, cloneString(r.s1), cloneString(r.s2))
	case opAccept:
		k.accept(t, r.ln)
	case opLnClose:
		k.lnClose(t, r.ln)
	case opLnSetDeadline:
		k.lnSetDeadline(t, r.ln, r.t)
	case opRead:
		k.read(t, r.ep, r.n)
	case opWrite:
		k.write(t, r.ep, r.b)
	case opClose:
		k.closeEp(t, r.ep, false)
	case opAbort:
		k.closeEp(t, r.ep, true)
	case opCloseRead:
		k.closeHalf(t, r.ep, true)
	case opCloseWrite:
		k.closeHalf(t, r.ep, false)
	case opSetRDL:
		k.setRDL(t, r.ep, r.t)
	case opSetWDL:
		k.setWDL(t, r.ep, r.t)
	case opSleep:
		t.blocked = "sleep"
		k.After(r.d, "wake "+t.id, func() { k.complete(t, result{}) })
	case opAwait:
		k.await(t, r.cond)
	case opRecord:
		k.Log = append(k.Log, Event{k.step, k.Elapsed(), t.id, cloneString(r.s1), cloneString(r.s2)})
		k.progressed()
		k.complete(t, result{})
	case opCtxNew:
		c := r.dctx
		k.ctxs = append(k.ctxs, c)
		if r.d > 0 {
			// timers that expire at the same instant fire in no particular order:
			// half of the contexts expire after everything else due at that instant
			// (sleeps that end, segments that arrive), so that code can run "at the
			// deadline, before the context knows"
			late := k.Draw(2) == 0
			if late {
				k.evseq += 1 << 40
			}
			k.After(r.d, "ctx-deadline", func() {
				if c.fire(context.DeadlineExceeded) {
					k.Fault("ctx_deadline")
				}
			})
			if late {
				k.evseq -= 1 << 40
				k.Count("ctx_deadline_ordered_last")
			}
		}
		k.complete(t, result{})
	case opCtxCancel:
		k.complete(t, result{})
	case opSetPolicy:
		r.ep.ReadPolicy = r.n
		k.complete(t, result{})
	case opChoose:
		k.sites[r.site] = struct{}{}
		k.Count("select_choices")
		k.complete(t, result{n: k.Draw(r.n)})
	case opEval:
		c := r.cond
		c.S1, c.S2 = cloneString(c.S1), cloneString(c.S2)
		k.complete(t, result{ok: k.condHolds(c), n: k.condCount(c)})
	default:
		panic("sim: unknown op")
	}
}

// ----- mutexes

func (k *Kernel) mutex(key uintptr) *simMutex {
	m := k.mutexes[key]
	if m == nil {
		m = &simMutex{readers: map[*Task]int{}}
		k.mutexes[key] = m
	}
	return m
}

func (m *simMutex) grantable(t *Task, read bool) bool {
	if read {
		// as sync.RWMutex: a blocked Lock call excludes new readers
		for _, w := range m.waiters {
			if w != t && !w.loadReq().read {
				return false
			}
		}
		return m.owner == nil
	}
	return m.owner == nil && len(m.readers) == 0
}

func (k *Kernel) acquire(t *Task, r request) {
	m := k.mutex(r.key)
	if m.grantable(t, r.read) {
		if r.read {
			m.readers[t]++
		} else {
			m.owner = t
		}
		k.complete(t, result{ok: true})
		return
	}
	if r.op == opTryAcquire {
		k.complete(t, result{ok: false})
		return
	}
	k.Count("lock_contended")
	owner := "readers"
	if m.owner != nil {
		owner = m.owner.id + "(" + m.owner.label + ")"
	}
	t.blocked = "mutex held by " + owner
	m.waiters = append(m.waiters, t)
}

func (k *Kernel) releaseLock(t *Task, r request) {
	m := k.mutex(r.key)
	if r.read {
		if m.readers[t] > 1 {
			m.readers[t]--
		} else {
			delete(m.readers, t)
		}
	} else {
		m.owner = nil
	}
	k.complete(t, result{})
	for len(m.waiters) > 0 {
		var cand []int
		for i, w := range m.waiters {
			if m.grantable(w, w.loadReq().read) {
				cand = append(cand, i)
			}
		}
		if len(cand) == 0 {
			break
		}
		i := cand[k.Draw(len(cand))]
		w := m.waiters[i]
		m.waiters = append(m.waiters[:i], m.waiters[i+1:]...)
		if w.loadReq().read {
			m.readers[w]++
		} else {
			m.owner = w
		}
		k.complete(w, result{ok: true})
		if m.owner != nil {
			break
		}
	}
}

// ----- namespace

func (k *Kernel) listen(t *Task, network, addr string) {
	key := nsKey(network, addr)
	if l := k.ns[key]; l != nil && !l.Closed {
		k.Count("listen_addrinuse")
		k.complete(t, result{err: eAddrInUse})
		return
	}
	l := &Listener{ID: len(k.Listeners), Network: network, Address: addr, BindSeq: k.step, BoundBy: t.id, tokIdx: len(k.Listeners)}
	k.ns[key] = l
	k.Listeners = append(k.Listeners, l)
	k.trace("listen L%d %s %s", l.ID, network, addr)
	k.progressed()
	k.complete(t, result{ln: l})
}

func (k *Kernel) dial(t *Task, network, addr string) {
	l := k.ns[nsKey(network, addr)]
	if l == nil || l.Closed {
		k.Count("dial_refused")
		k.trace("dial %s %s refused", network, addr)
		k.complete(t, result{err: eRefused})
		return
	}
	c := k.newConn(l)
	c.DialAt = k.Elapsed()
	c.DialedBy = t.id
	l.Dialed++
	l.backlog = append(l.backlog, c.Server)
	k.trace("dial c%d -> L%d", c.ID, l.ID)
	k.progressed()
	k.complete(t, result{ep: c.Client})
	k.tryAccept(l)
}

func (k *Kernel) openAccepted(l *Listener) int {
	n := 0
	for _, c := range l.Accepted {
		if !c.Server.Closed {
			n++
		}
	}
	return n
}

func (k *Kernel) tryAccept(l *Listener) {
	t := l.acceptor
	if t == nil {
		return
	}
	if len(l.backlog) == 0 {
		return
	}
	l.acceptor = nil
	l.AcceptBlocked = false
	k.handOver(t, l)
}

func (k *Kernel) handOver(t *Task, l *Listener) {
	ep := l.backlog[0]
	l.backlog = l.backlog[1:]
	ep.conn.AcceptSeq = k.step
	ep.conn.AcceptAt = k.Elapsed()
	l.Accepted = append(l.Accepted, ep.conn)
	k.trace("accept L%d -> c%d", l.ID, ep.conn.ID)
	k.progressed()
	k.complete(t, result{ep: ep})
}

func (k *Kernel) accept(t *Task, l *Listener) {
	l.AcceptCalls++
	l.AcceptLog = append(l.AcceptLog, AcceptRec{k.step, k.Elapsed()})
	if l.Closed {
		k.complete(t, result{err: eClosed})
		return
	}
	if !l.dl.IsZero() && !l.dl.After(time.Now()) {
		k.acceptTimeout(t, l)
		return
	}
	// injected failure of accept(2): at once ...
	late := false
	if k.cfg.AcceptErrPct > 0 && k.acceptErrs < max(1, k.cfg.AcceptErrMax) && k.Draw(100) >= 100-k.cfg.AcceptErrPct {
		if k.Draw(2) == 0 {
			k.acceptFail(t, l, false)
			return
		}
		late = true
	}
	if len(l.backlog) > 0 {
		k.handOver(t, l)
		return
	}
	l.acceptor = t
	l.AcceptBlocked = true
	l.AcceptSince = k.step
	l.accGen++
	t.blocked = Sf("accept L%d", l.ID)
	k.armAcceptDeadline(l)
	if late {
		// ... or after the caller has been blocked for a while
		gen := l.accGen
		d := time.Duration(1+k.Draw(5000)) * time.Microsecond
		k.At(time.Now().Add(d), Sf("accept-fault L%d", l.ID), func() {
			if l.accGen != gen || l.acceptor != t || l.Closed || k.acceptErrs >= max(1, k.cfg.AcceptErrMax) {
				return
			}
			l.acceptor = nil
			l.AcceptBlocked = false
			l.dlGen++
			k.acceptFail(t, l, true)
		})
	}
}

// acceptFail completes a call of Accept with an injected temporary error that is not a timeout.
func (k *Kernel) acceptFail(t *Task, l *Listener, blocked bool) {
	e := []errno{eMfile, eNfile, eConnAborted}[k.Draw(3)]
	k.acceptErrs++
	name := map[errno]string{eMfile: "EMFILE", eNfile: "ENFILE", eConnAborted: "ECONNABORTED"}[e]
	l.AcceptErrLog = append(l.AcceptErrLog, AcceptErrRec{k.step, k.Elapsed(), name, blocked, k.openAccepted(l)})
	k.Fault(Sf("accept_error[%s,blocked=%v,open=%v]", name, blocked, k.openAccepted(l) > 0))
	k.trace("accept L%d fails %s", l.ID, name)
	k.progressed()
	k.complete(t, result{err: e})
}

func (k *Kernel) acceptTimeout(t *Task, l *Listener) {
	if l.hadTimeout && l.sigAtTimeout == k.significant {
		k.idleCycle = true
	}
	l.hadTimeout = true
	l.sigAtTimeout = k.significant
	k.timeoutTask = t
	l.Timeouts++
	l.TimeoutLog = append(l.TimeoutLog, TimeoutRec{k.step, k.Elapsed(), k.openAccepted(l)})
	k.Fault(Sf("accept_timeout[open=%v]", k.openAccepted(l) > 0))
	k.trace("accept L%d timeout open=%d", l.ID, k.openAccepted(l))
	k.complete(t, result{err: eTimeout})
}

func (k *Kernel) armAcceptDeadline(l *Listener) {
	l.dlGen++
	if l.dl.IsZero() || l.acceptor == nil {
		return
	}
	gen := l.dlGen
	k.At(l.dl, Sf("accept-deadline L%d", l.ID), func() {
		if l.dlGen != gen || l.acceptor == nil || l.Closed {
			return
		}
		t := l.acceptor
		l.acceptor = nil
		l.AcceptBlocked = false
		k.acceptTimeout(t, l)
	})
}

func (k *Kernel) lnSetDeadline(t *Task, l *Listener, at time.Time) {
	if l.Closed {
		k.complete(t, result{err: eClosed})
		return
	}
	l.dl = at
	k.armAcceptDeadline(l)
	k.complete(t, result{})
}

func (k *Kernel) lnClose(t *Task, l *Listener) {
	if l.Closed {
		k.complete(t, result{err: eClosed})
		return
	}
	l.Closed = true
	l.CloseSeq = k.step
	l.CloseAt = k.Elapsed()
	l.ClosedBy = t.id
	l.OpenAtClose = k.openAccepted(l)
	if l.acceptor != nil {
		l.ClosedWhileAccepting = true
		l.AcceptSinceAtClose = l.AcceptSince
	}
	k.trace("close L%d", l.ID)
	k.progressed()
	if k.ns[nsKey(l.Network, l.Address)] == l {
		delete(k.ns, nsKey(l.Network, l.Address))
	}
	if a := l.acceptor; a != nil {
		l.acceptor = nil
		l.AcceptBlocked = false
		k.complete(a, result{err: eClosed})
	}
	for _, ep := range l.backlog {
		k.resetEp(ep)
		k.Count("backlog_reset")
	}
	l.backlog = nil
	k.complete(t, result{})
}

// ----- streams

func (k *Kernel) readSize(e *Endpoint, max int) int {
	if max <= 1 {
		return max
	}
	pol := k.cfg.ShortReads
	if e.ReadPolicy != 0 {
		pol = e.ReadPolicy - 1
	}
	switch pol {
	case 0:
		return max
	case 1:
		switch k.Draw(4) {
		case 0:
			return max
		case 1:
			return 1 + k.Draw(max)
		case 2:
			if max > 8 {
				return 1 + k.Draw(8)
			}
			return 1 + k.Draw(max)
		default:
			return 1
		}
	default:
		if k.Draw(8) == 0 {
			return max
		}
		return 1
	}
}

func (k *Kernel) takeBytes(p *pipe, n int) []byte {
	out := cloneBytes(p.buf[:n])
	rest := cloneBytes(p.buf[n:])
	p.buf = rest
	p.Consumed += n
	return out
}

func (k *Kernel) read(t *Task, e *Endpoint, max int) {
	e.noteUser(t)
	if e.Closed || e.rClosed {
		k.complete(t, result{err: eClosed})
		return
	}
	if !e.rdl.IsZero() && !e.rdl.After(time.Now()) {
		k.Count("read_deadline_expired_at_entry")
		k.complete(t, result{err: eTimeout})
		return
	}
	if k.tryRead(t, e, max) {
		return
	}
	p := e.in
	if len(p.readers) > 0 {
		k.Count("concurrent_readers_on_one_endpoint")
	}
	p.readers = append(p.readers, readWait{t, max})
	t.blocked = "read " + e.name()
	k.armRDL(e)
}

func (k *Kernel) tryRead(t *Task, e *Endpoint, max int) bool {
	p := e.in
	if p.reset {
		k.complete(t, result{err: eReset})
		return true
	}
	if len(p.buf) > 0 {
		avail := len(p.buf)
		if avail > max {
			avail = max
		}
		n := k.readSize(e, avail)
		if n < avail {
			k.Count("short_reads")
		}
		b := k.takeBytes(p, n)
		k.progressed()
		e.ReadLog = appendNorace(e.ReadLog, b)
		k.complete(t, result{n: n, b: b})
		k.pumpWriter(p)
		return true
	}
	if p.weof && len(p.segs) == 0 {
		k.complete(t, result{err: eEOF})
		return true
	}
	return false
}

func (k *Kernel) armRDL(e *Endpoint) {
	e.rdlGen++
	if e.rdl.IsZero() || len(e.in.readers) == 0 {
		return
	}
	gen := e.rdlGen
	k.At(e.rdl, "read-deadline "+e.name(), func() {
		if e.rdlGen != gen || len(e.in.readers) == 0 {
			return
		}
		// the deadline belongs to the descriptor: every blocked reader times out
		rs := e.in.readers
		e.in.readers = nil
		k.Fault("read_deadline")
		for _, r := range rs {
			k.complete(r.t, result{err: eTimeout})
		}
	})
}

func (k *Kernel) setRDL(t *Task, e *Endpoint, at time.Time) {
	if e.Closed {
		k.complete(t, result{err: eClosed})
		return
	}
	e.rdl = at
	// A deadline in the past does not complete a blocked read by itself: as with
	// the runtime's poller, the reader is woken and re-checks the deadline when it
	// runs. That is the expiry event armed here, which competes with the other
	// runnable tasks: if the deadline has been changed again by then (a reset to
	// "none" that overtakes the wake-up), the event is stale and the reader stays
	// blocked.
	if len(e.in.readers) > 0 && !at.IsZero() && !at.After(time.Now()) {
		k.Fault("read_woken_by_past_deadline")
	}
	k.armRDL(e)
	k.complete(t, result{})
}

func (k *Kernel) setWDL(t *Task, e *Endpoint, at time.Time) {
	if e.Closed {
		k.complete(t, result{err: eClosed})
		return
	}
	e.wdl = at
	if w := e.out.writer; w != nil && !at.IsZero() && !at.After(time.Now()) {
		k.Fault("write_woken_by_past_deadline")
	}
	k.armWDL(e)
	k.complete(t, result{})
}

func (k *Kernel) armWDL(e *Endpoint) {
	e.wdlGen++
	if e.wdl.IsZero() || e.out.writer == nil {
		return
	}
	gen := e.wdlGen
	k.At(e.wdl, "write-deadline "+e.name(), func() {
		if e.wdlGen != gen || e.out.writer == nil {
			return
		}
		p := e.out
		t := p.writer
		p.writer = nil
		k.Fault("write_deadline")
		k.complete(t, result{n: p.wdone, err: eTimeout})
	})
}

func (k *Kernel) latency() time.Duration {
	max := k.cfg.MaxLatencyUs
	if max <= 0 {
		return 0
	}
	tab := [...]int{0, 0, 0, 1, 10, 100, 1000, 10000, 100000}
	v := tab[k.Draw(len(tab))]
	if v > max {
		v = max
	}
	return time.Duration(v) * time.Microsecond
}

func (k *Kernel) segSize(n int) int {
	if n <= 1 {
		return n
	}
	switch k.cfg.Segmentation {
	case 0:
		return n
	case 1:
		tab := [...]int{0, 0, 1, 2, 3, 7, 16, 100, 1000, 4096, 5000}
		v := tab[k.Draw(len(tab))]
		if v == 0 || v > n {
			return n
		}
		return v
	default:
		if n > 64 {
			// long writes: a few single bytes, then the rest in blocks
			tab := [...]int{1, 1, 1, 13, 4095, 4096, 4097, 0}
			v := tab[k.Draw(len(tab))]
			if v == 0 || v > n {
				return n
			}
			return v
		}
		if k.Draw(8) == 0 {
			return n
		}
		return 1
	}
}

// accept as much of the pending write as fits and put it in flight
func (k *Kernel) pushBytes(e *Endpoint, p *pipe, b []byte) int {
	room := p.capacity - len(p.buf) - p.inflight
	if room <= 0 {
		return 0
	}
	n := len(b)
	if n > room {
		n = room
	}
	e.Tap = appendNorace(e.Tap, b[:n])
	p.Written += n
	if n > 0 {
		k.progressed()
	}
	off := 0
	nseg := 0
	for off < n {
		sz := k.segSize(n - off)
		seg := &segment{b: cloneBytes(b[off : off+sz])}
		off += sz
		nseg++
		p.segs = append(p.segs, seg)
		p.inflight += sz
		at := time.Now().Add(k.latency())
		if at.Before(p.lastAt) {
			at = p.lastAt
		}
		if at.After(time.Now()) {
			k.Count("delayed_deliveries")
		}
		p.lastAt = at
		k.Count("segments")
		k.At(at, Sf("deliver c%d.%d %dB", p.conn.ID, p.dir, sz), func() { k.deliver(p, seg) })
	}
	if nseg > 1 {
		k.Count("writes_split")
	}
	return n
}

func (k *Kernel) deliver(p *pipe, seg *segment) {
	if seg.dead || p.reset {
		return
	}
	// in-order: seg is p.segs[0]
	if len(p.segs) == 0 || p.segs[0] != seg {
		panic("sim: out-of-order delivery")
	}
	p.segs = p.segs[1:]
	p.inflight -= len(seg.b)
	if len(p.buf) > 0 {
		k.Count("coalesced")
	}
	p.buf = appendNorace(p.buf, seg.b)
	p.Delivered += len(seg.b)
	if p.rclosed {
		// reader is gone: data is dropped
		p.buf = nil
		k.pumpWriter(p)
		return
	}
	k.serveReaders(p)
}

// serveReaders hands what is in the buffer (or the end of the stream) to
// blocked readers, one at a time, in an order the kernel decides.
func (k *Kernel) serveReaders(p *pipe) {
	e := k.readerEnd(p)
	for len(p.readers) > 0 {
		i := 0
		if len(p.readers) > 1 {
			i = k.Draw(len(p.readers))
		}
		r := p.readers[i]
		rest := append([]readWait{}, p.readers[:i]...)
		rest = append(rest, p.readers[i+1:]...)
		p.readers = rest
		if !k.tryRead(r.t, e, r.max) {
			// nothing for it: back to waiting, and nothing for the others either
			p.readers = append(p.readers, r)
			return
		}
		if len(p.readers) == 0 {
			e.rdlGen++
		}
	}
}

func (k *Kernel) readerEnd(p *pipe) *Endpoint {
	if p.conn.Client.in == p {
		return p.conn.Client
	}
	return p.conn.Server
}

func (k *Kernel) writerEnd(p *pipe) *Endpoint {
	if p.conn.Client.out == p {
		return p.conn.Client
	}
	return p.conn.Server
}

func (k *Kernel) write(t *Task, e *Endpoint, b []byte) {
	e.noteUser(t)
	if e.Closed || e.wClosed {
		k.complete(t, result{err: eClosed})
		return
	}
	if !e.wdl.IsZero() && !e.wdl.After(time.Now()) {
		k.complete(t, result{err: eTimeout})
		return
	}
	p := e.out
	if p.reset {
		k.complete(t, result{err: eReset})
		return
	}
	if p.rclosed {
		k.complete(t, result{err: ePipe})
		return
	}
	n := k.pushBytes(e, p, b)
	if n == len(b) {
		k.complete(t, result{n: n})
		return
	}
	k.Count("writes_blocked")
	p.writer = t
	p.wrest = b[n:]
	p.wdone = n
	t.blocked = "write " + e.name()
	k.armWDL(e)
}

func (k *Kernel) pumpWriter(p *pipe) {
	t := p.writer
	if t == nil {
		return
	}
	e := k.writerEnd(p)
	n := k.pushBytes(e, p, p.wrest)
	p.wrest = p.wrest[n:]
	p.wdone += n
	if len(p.wrest) == 0 {
		p.writer = nil
		e.wdlGen++
		k.complete(t, result{n: p.wdone})
	}
}

func (k *Kernel) failBlocked(p *pipe, rerr, werr errno) {
	if len(p.readers) > 0 && rerr != eOK {
		rs := p.readers
		p.readers = nil
		for _, r := range rs {
			k.complete(r.t, result{err: rerr})
		}
	}
	if t := p.writer; t != nil && werr != eOK {
		p.writer = nil
		k.complete(t, result{n: p.wdone, err: werr})
	}
}

func (k *Kernel) resetEp(e *Endpoint) {
	// abortive close of e: both directions are torn down
	e.Closed = true
	e.Aborted = true
	if e.CloseSeq == 0 {
		e.CloseSeq = k.step
		e.CloseAt = k.Elapsed()
	}
	for _, p := range []*pipe{e.in, e.out} {
		p.reset = true
		for _, s := range p.segs {
			s.dead = true
		}
		p.segs = nil
		p.inflight = 0
		p.buf = nil
	}
	// e's own blocked calls: closed; the peer's: reset
	k.failBlocked(e.in, eClosed, eReset)
	k.failBlocked(e.out, eReset, eClosed)
}

func (k *Kernel) closeEp(t *Task, e *Endpoint, abort bool) {
	if e.Closed {
		k.complete(t, result{err: eClosed})
		return
	}
	if abort {
		k.trace("abort %s", e.name())
		k.progressed()
		k.Fault("abort")
		k.resetEp(e)
		k.complete(t, result{})
		return
	}
	k.trace("close %s", e.name())
	k.progressed()
	e.Closed = true
	e.CloseSeq = k.step
	e.CloseAt = k.Elapsed()
	// outgoing: peer sees EOF after the data already written
	e.out.weof = true
	k.failBlocked(e.out, eOK, eClosed)
	if len(e.out.buf) == 0 && len(e.out.segs) == 0 {
		k.serveReaders(e.out)
	}
	// incoming: our blocked reader fails; the peer's writes fail from now on
	e.in.rclosed = true
	e.in.buf = nil
	k.failBlocked(e.in, eClosed, ePipe)
	k.complete(t, result{})
}

func (k *Kernel) closeHalf(t *Task, e *Endpoint, readSide bool) {
	if readSide {
		if e.rClosed || e.Closed {
			k.complete(t, result{err: eClosed})
			return
		}
		e.rClosed = true
		e.in.rclosed = true
		e.in.buf = nil
		k.failBlocked(e.in, eClosed, ePipe)
	} else {
		if e.wClosed || e.Closed {
			k.complete(t, result{err: eClosed})
			return
		}
		e.wClosed = true
		e.out.weof = true
		k.failBlocked(e.out, eOK, eClosed)
		if len(e.out.buf) == 0 && len(e.out.segs) == 0 {
			k.serveReaders(e.out)
		}
	}
	if e.rClosed && e.wClosed && !e.Closed {
		e.Closed = true
		e.CloseSeq = k.step
		e.CloseAt = k.Elapsed()
	}
	k.complete(t, result{})
}

// ---------------------------------------------------------------------------
// conditions a scenario task can wait for

// CondKind enumerates the conditions.
type CondKind int

const (
	// CondQuiescent: nothing is runnable and no event is pending.
	CondQuiescent CondKind = iota
	// CondAcceptBlocked: some task is blocked in Accept on the listener bound to (S1,S2).
	CondAcceptBlocked
	// CondAcceptCalls: Accept has been called at least N times on listeners of (S1,S2).
	CondAcceptCalls
	// CondBound: a listener is bound to (S1,S2).
	CondBound
	// CondLogged: at least N events of kind S1 are in the observation log.
	CondLogged
	// CondAccepted: at least N connections have been accepted on listeners of (S1,S2).
	CondAccepted
	// CondDialed: at least N connections have been dialled to (S1,S2).
	CondDialed
)

// Cond is a data-only condition (no closures cross the kernel boundary).
type Cond struct {
	Kind CondKind
	S1   string
	S2   string
	N    int
}

type awaiter struct {
	t *Task
	c Cond
}

// condCount is the number the N of a counting condition is compared with.
func (k *Kernel) condCount(c Cond) int {
	n := 0
	switch c.Kind {
	case CondLogged:
		for i := range k.Log {
			if k.Log[i].Kind == c.S1 {
				n++
			}
		}
	case CondAccepted:
		for _, l := range k.Listeners {
			if l.Network == c.S1 && l.Address == c.S2 {
				n += len(l.Accepted)
			}
		}
	case CondDialed:
		for _, cn := range k.Conns {
			if cn.Network == c.S1 && cn.Addr == c.S2 {
				n++
			}
		}
	case CondAcceptCalls:
		for _, l := range k.Listeners {
			if l.Network == c.S1 && l.Address == c.S2 {
				n += l.AcceptCalls
			}
		}
	}
	return n
}

func (k *Kernel) condHolds(c Cond) bool {
	switch c.Kind {
	case CondLogged, CondAccepted, CondDialed:
		return k.condCount(c) >= c.N
	case CondAcceptBlocked:
		l := k.ns[nsKey(c.S1, c.S2)]
		return l != nil && l.AcceptBlocked
	case CondAcceptCalls:
		n := 0
		for _, l := range k.Listeners {
			if l.Network == c.S1 && l.Address == c.S2 {
				n += l.AcceptCalls
			}
		}
		return n >= c.N
	case CondBound:
		l := k.ns[nsKey(c.S1, c.S2)]
		return l != nil && !l.Closed
	}
	return false
}

func (k *Kernel) await(t *Task, c Cond) {
	c.S1, c.S2 = cloneString(c.S1), cloneString(c.S2)
	if c.Kind == CondQuiescent {
		t.blocked = "await quiescence"
		k.idle = append(k.idle, t)
		return
	}
	if k.condHolds(c) {
		k.complete(t, result{})
		return
	}
	t.blocked = Sf("await %d %s %s %d", c.Kind, c.S1, c.S2, c.N)
	k.awaiting = append(k.awaiting, awaiter{t, c})
}

func (k *Kernel) checkAwaiting() {
	if len(k.awaiting) == 0 {
		return
	}
	rest := k.awaiting[:0]
	for _, a := range k.awaiting {
		if k.condHolds(a.c) {
			k.complete(a.t, result{})
		} else {
			rest = append(rest, a)
		}
	}
	k.awaiting = rest
}

// ---------------------------------------------------------------------------
// task-side API

type simAddr struct{ network, addr string }

func (a simAddr) Network() string { return a.network }
func (a simAddr) String() string  { return a.addr }

func mkerr(op string, e errno) error {
	switch e {
	case eOK:
		return nil
	case eEOF:
		return io.EOF
	case eTimeout:
		return &net.OpError{Op: op, Net: "sim", Err: os.ErrDeadlineExceeded}
	case eMfile:
		return &net.OpError{Op: op, Net: "sim", Err: os.NewSyscallError("accept4", syscall.EMFILE)}
	case eNfile:
		return &net.OpError{Op: op, Net: "sim", Err: os.NewSyscallError("accept4", syscall.ENFILE)}
	case eConnAborted:
		return &net.OpError{Op: op, Net: "sim", Err: os.NewSyscallError("accept4", syscall.ECONNABORTED)}
	case eClosed, eDrain:
		return &net.OpError{Op: op, Net: "sim", Err: net.ErrClosed}
	case eReset:
		return &net.OpError{Op: op, Net: "sim", Err: os.NewSyscallError(op, syscall.ECONNRESET)}
	case ePipe:
		return &net.OpError{Op: op, Net: "sim", Err: os.NewSyscallError(op, syscall.EPIPE)}
	case eRefused:
		return &net.OpError{Op: op, Net: "sim", Err: os.NewSyscallError("connect", syscall.ECONNREFUSED)}
	case eAddrInUse:
		return &net.OpError{Op: op, Net: "sim", Err: os.NewSyscallError("bind", syscall.EADDRINUSE)}
	}
	return errors.New(Sf("sim: errno %d", int(e)))
}

func mustSelf() *Task {
	t := Self()
	if t == nil {
		panic("sim: simulated object used outside a task")
	}
	return t
}

// Listen binds a simulated listener.
func Listen(network, addr string) (net.Listener, error) {
	t := mustSelf()
	res := t.syscall(request{op: opListen, s1: network, s2: addr})
	if res.err != eOK {
		return nil, mkerr("listen", res.err)
	}
	return res.ln, nil
}

// Dial connects to a simulated listener.
func Dial(network, addr string) (*Endpoint, error) {
	t := mustSelf()
	res := t.syscall(request{op: opDial, s1: network, s2: addr})
	if res.err != eOK {
		return nil, mkerr("dial", res.err)
	}
	return res.ep, nil
}

// Tokens: every method of a simulated endpoint or listener performs an atomic
// read-modify-write on a per-object token at entry and exit, mirroring the
// fdMutex atomics every operation on a real file descriptor performs, so that
// the race detector orders exactly the events a real socket orders. The tokens
// live in static tables (memory the kernel goroutine never allocated or wrote,
// which the detector would report as a race with the allocation) and are found
// through unobserved loads.
const tokSlots = 1 << 12

var (
	epToks [tokSlots]int32
	lnToks [tokSlots]int32
)

//go:norace
func (l *Listener) tokAddr() *int32 { return &lnToks[l.tokIdx%tokSlots] }

//go:norace
func (e *Endpoint) tokAddr() *int32 { return &epToks[e.tokIdx%tokSlots] }

func (l *Listener) touch() { atomic.AddInt32(l.tokAddr(), 1) }

func (l *Listener) Accept() (net.Conn, error) {
	l.touch()
	defer l.touch()
	res := mustSelf().syscall(request{op: opAccept, ln: l})
	if res.err != eOK {
		return nil, mkerr("accept", res.err)
	}
	return res.ep, nil
}

func (l *Listener) Close() error {
	l.touch()
	defer l.touch()
	res := mustSelf().syscall(request{op: opLnClose, ln: l})
	return mkerr("close", res.err)
}

func (l *Listener) SetDeadline(at time.Time) error {
	l.touch()
	defer l.touch()
	res := mustSelf().syscall(request{op: opLnSetDeadline, ln: l, t: at})
	return mkerr("set", res.err)
}

// Addr reads fields the kernel wrote; the handoff that orders the two is
// hidden from the race detector, hence norace.
//
//go:norace
func (l *Listener) Addr() net.Addr { return simAddr{l.Network, l.Address} }

func (e *Endpoint) touch() { atomic.AddInt32(e.tokAddr(), 1) }

func (e *Endpoint) Read(p []byte) (int, error) {
	e.touch()
	defer e.touch()
	if len(p) == 0 {
		return 0, nil
	}
	res := mustSelf().syscall(request{op: opRead, ep: e, n: len(p)})
	if res.err != eOK {
		return 0, mkerr("read", res.err)
	}
	// the kernel's slice is moved into a buffer of this task by an unobserved
	// byte loop; the write into the caller's buffer is an ordinary, observed one
	tmp := make([]byte, len(res.b))
	copyNorace(tmp, res.b)
	return copy(p, tmp), nil
}

//go:norace
func copyNorace(dst, src []byte) {
	for i := 0; i < len(src) && i < len(dst); i++ {
		dst[i] = src[i]
	}
}

func (e *Endpoint) Write(p []byte) (int, error) {
	e.touch()
	defer e.touch()
	c := make([]byte, len(p))
	copy(c, p)
	res := mustSelf().syscall(request{op: opWrite, ep: e, b: c})
	return res.n, mkerr("write", res.err)
}

func (e *Endpoint) Close() error {
	e.touch()
	defer e.touch()
	res := mustSelf().syscall(request{op: opClose, ep: e})
	return mkerr("close", res.err)
}

// Abort closes the connection abortively (as a killed peer process whose
// socket still had unread data, or SO_LINGER 0): data in flight is discarded
// and the other side sees ECONNRESET.
func (e *Endpoint) Abort() error {
	e.touch()
	defer e.touch()
	res := mustSelf().syscall(request{op: opAbort, ep: e})
	return mkerr("close", res.err)
}

func (e *Endpoint) SetDeadline(at time.Time) error {
	if err := e.SetReadDeadline(at); err != nil {
		return err
	}
	return e.SetWriteDeadline(at)
}

func (e *Endpoint) SetReadDeadline(at time.Time) error {
	e.touch()
	defer e.touch()
	res := mustSelf().syscall(request{op: opSetRDL, ep: e, t: at})
	return mkerr("set", res.err)
}

func (e *Endpoint) SetWriteDeadline(at time.Time) error {
	e.touch()
	defer e.touch()
	res := mustSelf().syscall(request{op: opSetWDL, ep: e, t: at})
	return mkerr("set", res.err)
}

// CloseWrite / CloseRead: what *net.UnixConn and *net.TCPConn offer as well
// (library code may look for them through an interface assertion).
func (e *Endpoint) CloseWrite() error {
	e.touch()
	defer e.touch()
	res := mustSelf().syscall(request{op: opCloseWrite, ep: e})
	return mkerr("close", res.err)
}

func (e *Endpoint) CloseRead() error {
	e.touch()
	defer e.touch()
	res := mustSelf().syscall(request{op: opCloseRead, ep: e})
	return mkerr("close", res.err)
}

func (e *Endpoint) LocalAddr() net.Addr  { return simAddr{"sim", "local"} }
func (e *Endpoint) RemoteAddr() net.Addr { return simAddr{"sim", "remote"} }

// ReadHalf / WriteHalf present an endpoint as the two *os.File-like ends
// exec.Cmd gives a bridge: separate Close, deadlines supported.
type ReadHalf struct{ E *Endpoint }
type WriteHalf struct{ E *Endpoint }

func (h ReadHalf) Read(p []byte) (int, error) { return h.E.Read(p) }
func (h ReadHalf) Close() error {
	res := mustSelf().syscall(request{op: opCloseRead, ep: h.E})
	return mkerr("close", res.err)
}
func (h ReadHalf) SetReadDeadline(at time.Time) error { return h.E.SetReadDeadline(at) }
func (h ReadHalf) SetDeadline(at time.Time) error     { return h.E.SetReadDeadline(at) }

func (h WriteHalf) Write(p []byte) (int, error) { return h.E.Write(p) }
func (h WriteHalf) Close() error {
	res := mustSelf().syscall(request{op: opCloseWrite, ep: h.E})
	return mkerr("close", res.err)
}
func (h WriteHalf) SetWriteDeadline(at time.Time) error { return h.E.SetWriteDeadline(at) }
func (h WriteHalf) SetDeadline(at time.Time) error      { return h.E.SetWriteDeadline(at) }

// Sleep blocks the task for d of simulated time.
func Sleep(d time.Duration) {
	mustSelf().syscall(request{op: opSleep, d: d})
}

// Step is a pure scheduling point.
func Step(site string) {
	mustSelf().syscall(request{op: opYield, site: site})
}

// Await blocks until the condition holds.
func Await(c Cond) {
	mustSelf().syscall(request{op: opAwait, cond: c})
}

// Holds evaluates a condition without blocking (a scheduling point).
func Holds(c Cond) bool {
	return mustSelf().syscall(request{op: opEval, cond: c}).ok
}

// Count evaluates the count behind a counting condition (a scheduling point).
func Count(c Cond) int {
	return mustSelf().syscall(request{op: opEval, cond: c}).n
}

// Rec appends an observation to the run's log and returns its sequence number.
func Rec(kind, data string) uint64 {
	res := mustSelf().syscall(request{op: opRecord, s1: kind, s2: data})
	return res.seq
}

// ---------------------------------------------------------------------------
// kernel-driven contexts

var errCanceled = context.Canceled

// DeadlineCtx is a context whose deadline expiry is a kernel event, so that a
// tie between "context done" and "connection deadline reached" at the same
// simulated instant is decided by the scheduler like everything else.
type DeadlineCtx struct {
	deadline time.Time
	hasDL    bool
	done     chan struct{}
	// state: 0 live, 1 cancelled, 2 deadline exceeded; unobserved accesses only
	state int32
	// after: functions registered through AfterFunc (standard contexts derived
	// from this one register their cancellation here)
	// (unobserved accesses, like every field here; registration and firing pass
	// through afterMu[muIdx], an ordinary mutex in static memory that the race
	// detector sees: like the children of a standard context, registering a
	// function happens before the firing that calls it)
	after []*afterEntry
	muIdx int
}

// afterMu: static, so that no allocation by one goroutine precedes its use by another.
var afterMu [64]sync.Mutex
var afterMuNext uint32

type afterEntry struct {
	c       *DeadlineCtx
	f       func()
	stopped bool
}

// NewCtx creates a context. d == 0: no deadline (cancel only).
func NewCtx(d time.Duration) *DeadlineCtx {
	c := &DeadlineCtx{done: make(chan struct{}), muIdx: int(atomic.AddUint32(&afterMuNext, 1) % 64)}
	if d > 0 {
		c.deadline = time.Now().Add(d)
		c.hasDL = true
	}
	mustSelf().syscall(request{op: opCtxNew, dctx: c, d: d})
	return c
}

// NewCtx creates a cancel-only context from scenario set-up code (kernel side,
// before any task runs).
func (k *Kernel) NewCtx() *DeadlineCtx {
	c := &DeadlineCtx{done: make(chan struct{}), muIdx: int(atomic.AddUint32(&afterMuNext, 1) % 64)}
	k.ctxs = append(k.ctxs, c)
	return c
}

// fire ends the context. It is called by the kernel (deadline, drain) or by a
// task (Cancel); one at a time, since only one of them runs. The close of the
// done channel happens with race synchronisation disabled: a context expiring
// creates no happens-before edge between unrelated goroutines in reality
// either (the timer goroutine touches nothing else).
//
//go:norace
func (c *DeadlineCtx) fire(err error) bool {
	if c.state != 0 {
		return false
	}
	if err == context.DeadlineExceeded {
		c.state = 2
	} else {
		c.state = 1
	}
	raceOff()
	close(c.done)
	raceOn()
	// derived standard contexts end now, in the firing task (or the kernel): no
	// unmanaged goroutine propagates the cancellation
	afterMu[c.muIdx].Lock()
	after := c.after
	c.after = nil
	afterMu[c.muIdx].Unlock()
	for _, e := range after {
		if e.stop() {
			e.f()
		}
	}
	return true
}

// AfterFunc implements the optional interface the context package looks for
// in a parent it does not know (context.WithCancel(c) would otherwise start a
// goroutine of its own that waits for c.Done()).
//
//
//go:norace
func (c *DeadlineCtx) AfterFunc(f func()) (stop func() bool) {
	if c.state != 0 {
		f()
		return func() bool { return false }
	}
	e := &afterEntry{c: c, f: f}
	afterMu[c.muIdx].Lock()
	c.after = append(c.after, e)
	afterMu[c.muIdx].Unlock()
	return e.stop
}

//go:norace
func (e *afterEntry) stop() bool {
	afterMu[e.c.muIdx].Lock()
	defer afterMu[e.c.muIdx].Unlock()
	if e.stopped {
		return false
	}
	e.stopped = true
	return true
}

//go:norace
func (c *DeadlineCtx) loadState() int32 { return c.state }

//go:norace
func (c *DeadlineCtx) dl() (time.Time, bool) { return c.deadline, c.hasDL }

// Cancel cancels the context from the calling task (a scheduling point first).
func (c *DeadlineCtx) Cancel() {
	mustSelf().syscall(request{op: opCtxCancel})
	c.fire(context.Canceled)
}

// Expire ends the context as if its deadline passed at this very instant (a
// scheduling point first): Err is DeadlineExceeded, Deadline reports now.
func (c *DeadlineCtx) Expire() {
	mustSelf().syscall(request{op: opCtxCancel})
	c.setDL(time.Now())
	c.fire(context.DeadlineExceeded)
}

//go:norace
func (c *DeadlineCtx) setDL(at time.Time) { c.deadline, c.hasDL = at, true }

func (c *DeadlineCtx) Deadline() (time.Time, bool) { return c.dl() }

//go:norace
func (c *DeadlineCtx) Done() <-chan struct{} { return c.done }
func (c *DeadlineCtx) Err() error {
	switch c.loadState() {
	case 1:
		return context.Canceled
	case 2:
		return context.DeadlineExceeded
	}
	return nil
}
func (c *DeadlineCtx) Value(key any) any { return nil }

// ConnID returns the id of the connection an endpoint belongs to.
//
//go:norace
func ConnID(e *Endpoint) int { return e.conn.ID }

// SetReadPolicy overrides the run's short-read policy for one endpoint
// (1 = full reads, 2 = random prefixes, 3 = single bytes).
func SetReadPolicy(e *Endpoint, pol int) {
	mustSelf().syscall(request{op: opSetPolicy, ep: e, n: pol})
}

// Go starts a child task of the calling task.
func Go(name string, fn func()) {
	t := mustSelf()
	res := t.syscall(request{op: opSpawn, site: name})
	go res.task.run(fn)
}
