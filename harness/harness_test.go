package harness

import (
	"encoding/json"
	"fmt"
	"os"
	"runtime"
	"sort"
	"strings"
	"testing"
	"time"

	"verifharness/props"
	"verifharness/sim"
)

// Spec is the work order the driver hands a worker process (VERIF_SPEC=<file>).
type Spec struct {
	Mode      string `json:"mode"` // batch | replay | minimize | show
	Prop      string `json:"prop"`
	Tier      string `json:"tier"`
	SeedBase  uint64 `json:"seed_base"`
	IndexFrom uint64 `json:"index_from"`
	Stride    uint64 `json:"stride"`
	Count     uint64 `json:"count"`
	Out       string `json:"out"`
	Replay    string `json:"replay,omitempty"`
	BudgetMs  int    `json:"budget_ms"`
	Twice     int    `json:"twice"` // re-run every Nth seed and compare trace hashes
	KeepTrace bool   `json:"keep_trace"`
	MaxViol   int    `json:"max_viol"`
}

// ReplayFile is what a VIOLATION line points to.
type ReplayFile struct {
	Property  string          `json:"property"`
	Seed      uint64          `json:"seed"`
	Scenario  json.RawMessage `json:"scenario"`
	Tape      []uint32        `json:"tape"`
	Violation sim.Violation   `json:"violation"`
	TraceHash string          `json:"trace_hash"`
	Tree      string          `json:"tree,omitempty"`
	Steps     uint64          `json:"steps"`
	Minimised bool            `json:"minimised"`
	Note      string          `json:"note,omitempty"`
	Trace     []string        `json:"trace,omitempty"`
}

// Summary is what a batch worker reports.
type Summary struct {
	Prop        string             `json:"prop"`
	Runs        int                `json:"runs"`
	NonTrivial  int                `json:"nontrivial"`
	Signatures  []string           `json:"signatures"` // distinct interleaving signatures of non-trivial runs
	Steps       uint64             `json:"steps"`
	Switches    int                `json:"switches"`
	SimTimeNs   int64              `json:"sim_time_ns"`
	SimTimeS    float64            `json:"sim_time_s"`
	WallUs      int64              `json:"wall_us"`
	Counters    map[string]int     `json:"counters"`
	Sites       []string           `json:"sites"`
	SwitchPairs int                `json:"switch_pairs"`
	Stops       map[string]int     `json:"stops"`
	Violations  []ReplayFile       `json:"violations,omitempty"`
	ViolCount   int                `json:"viol_count"`
	Samples     []json.RawMessage  `json:"samples,omitempty"`
	DetChecked  int                `json:"det_checked"`
	DetMismatch []uint64           `json:"det_mismatch,omitempty"`
	HarnessErrs []string           `json:"harness_errs,omitempty"`
	Leaked      int                `json:"leaked"`
	LastIndex   uint64             `json:"last_index"`
	Done        bool               `json:"done"`
	Extra       map[string]float64 `json:"extra,omitempty"`
}

func loadSpec(t *testing.T) *Spec {
	p := os.Getenv("VERIF_SPEC")
	if p == "" {
		t.Skip("VERIF_SPEC not set")
	}
	b, err := os.ReadFile(p)
	if err != nil {
		t.Fatal(err)
	}
	var s Spec
	if err := json.Unmarshal(b, &s); err != nil {
		t.Fatal(err)
	}
	return &s
}

func writeJSON(path string, v interface{}) {
	b, err := json.Marshal(v)
	if err != nil {
		panic(err)
	}
	tmp := path + ".tmp"
	if err := os.WriteFile(tmp, b, 0o644); err != nil {
		panic(err)
	}
	os.Rename(tmp, path)
}

func TestSim(t *testing.T) {
	spec := loadSpec(t)
	switch spec.Mode {
	case "batch":
		batch(t, spec)
	case "replay":
		replay(t, spec)
	case "minimize":
		minimize(t, spec)
	case "hashes":
		hashes(t, spec)
	default:
		t.Fatalf("unknown mode %q", spec.Mode)
	}
}

// runIn executes one run as a subtest under a wall-clock watchdog: a run that
// does not finish (a goroutine blocked in a way the bubble does not see as
// durable, e.g. on a library mutex) gets all stacks dumped and the worker
// exits; the driver reports that as harness trouble (exit 2), never as a violation.
func runIn(t *testing.T, name string, sc props.Scenario, f func(t *testing.T)) {
	done := make(chan struct{})
	// a scenario that asks for a larger step cap (C02's bulk scenarios) gets a
	// proportionally longer watchdog, 4 minutes at most
	limit := 60 * time.Second
	if sc != nil {
		if ms := sc.Cfg().MaxSteps; ms > 50000 {
			limit = time.Duration(ms/50000) * 60 * time.Second
			if limit > 4*time.Minute {
				limit = 4 * time.Minute
			}
		}
	}
	go func() {
		select {
		case <-done:
		case <-time.After(limit):
			buf := make([]byte, 1<<20)
			n := runtime.Stack(buf, true)
			fmt.Fprintf(os.Stderr, "verif worker: run %s exceeded %v of wall clock; goroutines:\n%s\n", name, limit, buf[:n])
			os.Exit(3)
		}
	}()
	t.Run(name, f)
	close(done)
}

func batch(t *testing.T, spec *Spec) {
	prop := props.Lookup(spec.Prop)
	if prop == nil {
		t.Fatalf("unknown property %q", spec.Prop)
	}
	sum := &Summary{Prop: spec.Prop, Counters: map[string]int{}, Stops: map[string]int{}}
	sigs := map[string]struct{}{}
	sites := map[string]struct{}{}
	pairs := map[string]struct{}{}
	stride := spec.Stride
	if stride == 0 {
		stride = 1
	}
	deadline := time.Now().Add(time.Duration(spec.BudgetMs) * time.Millisecond)
	maxViol := spec.MaxViol
	if maxViol == 0 {
		maxViol = 5
	}
	flush := func(done bool) {
		sum.Signatures = sum.Signatures[:0]
		for s := range sigs {
			sum.Signatures = append(sum.Signatures, s)
		}
		sort.Strings(sum.Signatures)
		sum.Sites = sum.Sites[:0]
		for s := range sites {
			sum.Sites = append(sum.Sites, s)
		}
		sort.Strings(sum.Sites)
		sum.SwitchPairs = len(pairs)
		sum.Done = done
		writeJSON(spec.Out, sum)
	}
	for i := 0; uint64(i) < spec.Count; i++ {
		if spec.BudgetMs > 0 && time.Now().After(deadline) {
			break
		}
		index := spec.IndexFrom + uint64(i)*stride
		seed := RunSeed(spec.SeedBase, index)
		sc := prop.Gen(seed, spec.Tier)
		var res props.RunResult
		keepSites := i%16 == 0
		runIn(t, fmt.Sprintf("s%d", seed), sc, func(t *testing.T) {
			props.RunOne(t, spec.Prop, seed, sc, props.RunOpts{KeepSites: keepSites, KeepTrace: spec.KeepTrace}, &res)
		})
		collectRaces(&res)
		sum.Runs++
		sum.LastIndex = index
		sum.Steps += res.Steps
		sum.Switches += res.Switches
		sum.SimTimeNs += res.SimTimeNs
		sum.SimTimeS += float64(res.SimTimeNs) / 1e9 // (the ns sum overflows after ~292 simulated years)
		sum.WallUs += res.WallUs
		sum.Stops[res.StopReason]++
		for k, v := range res.Counters {
			sum.Counters[k] += v
		}
		for _, s := range res.Sites {
			sites[s] = struct{}{}
		}
		for _, s := range res.SwitchPairs {
			pairs[s] = struct{}{}
		}
		if res.NonTrivial {
			sum.NonTrivial++
			if res.NonDefault > 0 {
				sigs[res.Signature] = struct{}{}
			}
		}
		if len(sum.Samples) < 2 && res.NonTrivial && len(res.Scenario) < 1<<16 {
			sample, _ := json.Marshal(map[string]interface{}{"seed": seed, "scenario": res.Scenario, "steps": res.Steps,
				"trace_hash": res.TraceHash, "stop": res.StopReason, "trace_tail": tail(res.Trace, 12)})
			sum.Samples = append(sum.Samples, sample)
		}
		if res.HarnessErr != "" {
			sum.HarnessErrs = append(sum.HarnessErrs, fmt.Sprintf("seed %d: %s", seed, res.HarnessErr))
		}
		if res.Leaked {
			sum.Leaked++
		}
		if len(res.Violations) > 0 {
			sum.ViolCount++
			if len(sum.Violations) < maxViol {
				sum.Violations = append(sum.Violations, ReplayFile{Property: spec.Prop, Seed: seed, Scenario: res.Scenario,
					Tape: res.Tape, Violation: res.Violations[0], TraceHash: res.TraceHash, Steps: res.Steps, Trace: tail(res.Trace, 60)})
			}
			flush(false)
		}
		if spec.Twice > 0 && i%spec.Twice == 0 && res.HarnessErr == "" {
			var res2 props.RunResult
			sc2 := prop.Gen(seed, spec.Tier)
			runIn(t, fmt.Sprintf("s%d-again", seed), sc2, func(t *testing.T) {
				props.RunOne(t, spec.Prop, seed, sc2, props.RunOpts{}, &res2)
			})
			sum.DetChecked++
			if res2.TraceHash != res.TraceHash {
				sum.DetMismatch = append(sum.DetMismatch, seed)
				if dir := os.Getenv("VERIF_DEBUG_DET"); dir != "" {
					for j := 0; j < 2; j++ {
						var r3 props.RunResult
						sc3 := prop.Gen(seed, spec.Tier)
						runIn(t, fmt.Sprintf("s%d-dbg%d", seed, j), sc3, func(t *testing.T) {
							props.RunOne(t, spec.Prop, seed, sc3, props.RunOpts{KeepTrace: true}, &r3)
						})
						os.WriteFile(fmt.Sprintf("%s/det-%d-%d.txt", dir, seed, j), []byte(strings.Join(r3.Trace, "\n")+"\n"+r3.TraceHash+" "+res.TraceHash+" "+res2.TraceHash+"\n"), 0o644)
					}
				}
			}
		}
		if res.Leaked && sum.Leaked >= 50 {
			// too many abandoned goroutines: let the driver start a fresh process
			break
		}
		if len(sum.HarnessErrs) > 20 {
			break
		}
	}
	flush(true)
}

// RunSeed derives the seed of run #index of a batch from VERIF_SEED (splitmix64).
func RunSeed(base, index uint64) uint64 {
	z := base*0x9e3779b97f4a7c15 + index + 0x632be59bd9b4e019
	z = (z ^ (z >> 30)) * 0xbf58476d1ce4e5b9
	z = (z ^ (z >> 27)) * 0x94d049bb133111eb
	z ^= z >> 31
	return z >> 1
}

// hashes runs a range of indices and reports the trace hash of each
// (determinism self-test: the driver diffs the output of many processes).
func hashes(t *testing.T, spec *Spec) {
	prop := props.Lookup(spec.Prop)
	if prop == nil {
		t.Fatalf("unknown property %q", spec.Prop)
	}
	out := map[string]string{}
	stride := spec.Stride
	if stride == 0 {
		stride = 1
	}
	for i := uint64(0); i < spec.Count; i++ {
		index := spec.IndexFrom + i*stride
		seed := RunSeed(spec.SeedBase, index)
		sc := prop.Gen(seed, spec.Tier)
		var res props.RunResult
		runIn(t, fmt.Sprintf("s%d", seed), sc, func(t *testing.T) {
			props.RunOne(t, spec.Prop, seed, sc, props.RunOpts{}, &res)
		})
		collectRaces(&res)
		v := ""
		if len(res.Violations) > 0 {
			v = " V:" + res.Violations[0].Clause + "/" + res.Violations[0].Key
		}
		out[fmt.Sprint(index)] = res.TraceHash + v + " " + res.HarnessErr
	}
	writeJSON(spec.Out, out)
}

func tail(l []string, n int) []string {
	if len(l) > n {
		return l[len(l)-n:]
	}
	return l
}

func loadReplay(t *testing.T, path string) (*ReplayFile, *props.Property, props.Scenario) {
	b, err := os.ReadFile(path)
	if err != nil {
		t.Fatal(err)
	}
	var rf ReplayFile
	if err := json.Unmarshal(b, &rf); err != nil {
		t.Fatal(err)
	}
	prop := props.Lookup(rf.Property)
	if prop == nil {
		t.Fatalf("unknown property %q", rf.Property)
	}
	sc, err := prop.Decode(rf.Scenario)
	if err != nil {
		t.Fatal(err)
	}
	return &rf, prop, sc
}

// ReplayOut is the verdict of a replay.
type ReplayOut struct {
	Reproduced bool            `json:"reproduced"`
	SameHash   bool            `json:"same_hash"`
	TraceHash  string          `json:"trace_hash"`
	Violations []sim.Violation `json:"violations"`
	Trace      []string        `json:"trace,omitempty"`
	HarnessErr string          `json:"harness_err,omitempty"`
}

func sameViolation(vs []sim.Violation, want sim.Violation) bool {
	for _, v := range vs {
		if v.Clause == want.Clause && v.Key == want.Key {
			return true
		}
	}
	return false
}

func replay(t *testing.T, spec *Spec) {
	rf, _, sc := loadReplay(t, spec.Replay)
	var res props.RunResult
	runIn(t, "replay", sc, func(t *testing.T) {
		if os.Getenv("VERIF_REPLAY_FRESH") != "" {
			// debugging aid: re-run from the seed instead of the tape
			props.RunOne(t, rf.Property, rf.Seed, sc, props.RunOpts{KeepTrace: os.Getenv("VERIF_REPLAY_FRESH") == "trace"}, &res)
			return
		}
		props.RunOne(t, rf.Property, rf.Seed, sc, props.RunOpts{Tape: rf.Tape, Replay: true, KeepTrace: true}, &res)
	})
	collectRaces(&res)
	out := ReplayOut{
		Reproduced: sameViolation(res.Violations, rf.Violation),
		SameHash:   res.TraceHash == rf.TraceHash,
		TraceHash:  res.TraceHash,
		Violations: res.Violations,
		HarnessErr: res.HarnessErr,
	}
	if spec.KeepTrace {
		out.Trace = res.Trace
	}
	writeJSON(spec.Out, out)
}

// minimize shrinks the scenario and then the tape while the same violation
// class (clause + key) keeps firing.
func minimize(t *testing.T, spec *Spec) {
	rf, prop, sc := loadReplay(t, spec.Replay)
	deadline := time.Now().Add(time.Duration(spec.BudgetMs) * time.Millisecond)
	n := 0
	run1 := func(sc props.Scenario, seed uint64, tape []uint32, replay bool) props.RunResult {
		var res props.RunResult
		n++
		runIn(t, fmt.Sprintf("m%d", n), sc, func(t *testing.T) {
			props.RunOne(t, rf.Property, seed, sc, props.RunOpts{Tape: tape, Replay: replay}, &res)
		})
		collectRaces(&res)
		return res
	}
	// a race report is not a pure function of the schedule (see the driver): a
	// candidate only counts if it shows the race twice in a row
	run := func(sc props.Scenario, seed uint64, tape []uint32, replay bool) props.RunResult {
		res := run1(sc, seed, tape, replay)
		if rf.Violation.Clause == "data-race" && sameViolation(res.Violations, rf.Violation) {
			again := run1(sc, seed, res.Tape, true)
			if !sameViolation(again.Violations, rf.Violation) {
				res.Violations = nil
			}
		}
		return res
	}
	best := sc
	bestSeed := rf.Seed
	bestTape := rf.Tape
	// confirm
	base := run(best, bestSeed, bestTape, true)
	if !sameViolation(base.Violations, rf.Violation) {
		rf.Note = "minimisation skipped: recorded tape does not reproduce in this process"
		writeJSON(spec.Out, rf)
		return
	}
	bestHash := base.TraceHash
	bestSteps := base.Steps
	attempts := 0
	// 1. scenario level: a candidate is kept if some schedule (the old tape as
	// far as it applies, or a few fresh seeds) still shows the same violation
	improved := true
	for improved && time.Now().Before(deadline) {
		improved = false
		for _, cand := range best.Shrinks() {
			if time.Now().After(deadline) {
				break
			}
			found := false
			var got props.RunResult
			var gotSeed uint64
			tries := []struct {
				seed   uint64
				tape   []uint32
				replay bool
			}{{bestSeed, bestTape, true}}
			for j := uint64(0); j < 6; j++ {
				tries = append(tries, struct {
					seed   uint64
					tape   []uint32
					replay bool
				}{bestSeed*31 + j + 1, nil, false})
			}
			for _, tr := range tries {
				attempts++
				r := run(cand, tr.seed, tr.tape, tr.replay)
				if r.HarnessErr == "" && sameViolation(r.Violations, rf.Violation) {
					found, got, gotSeed = true, r, tr.seed
					break
				}
			}
			if found {
				best, bestSeed, bestTape, bestHash, bestSteps = cand, gotSeed, got.Tape, got.TraceHash, got.Steps
				improved = true
				break
			}
		}
	}
	// 2. tape level: zero out chunks (0 = default decision), then truncate
	chunk := len(bestTape) / 2
	for chunk >= 1 && time.Now().Before(deadline) {
		changed := false
		for off := 0; off < len(bestTape) && time.Now().Before(deadline); off += chunk {
			end := off + chunk
			if end > len(bestTape) {
				end = len(bestTape)
			}
			allZero := true
			for _, v := range bestTape[off:end] {
				if v != 0 {
					allZero = false
				}
			}
			if allZero {
				continue
			}
			cand := append([]uint32{}, bestTape...)
			for i := off; i < end; i++ {
				cand[i] = 0
			}
			attempts++
			r := run(best, bestSeed, cand, true)
			if r.HarnessErr == "" && sameViolation(r.Violations, rf.Violation) {
				bestTape, bestHash, bestSteps = r.Tape, r.TraceHash, r.Steps
				changed = true
			}
		}
		if !changed {
			chunk /= 2
		}
	}
	// drop trailing zeros (an exhausted tape yields zeros anyway)
	for len(bestTape) > 0 && bestTape[len(bestTape)-1] == 0 {
		bestTape = bestTape[:len(bestTape)-1]
	}
	final := run(best, bestSeed, bestTape, true)
	out := *rf
	if sameViolation(final.Violations, rf.Violation) {
		raw, _ := json.Marshal(best)
		out.Scenario = raw
		out.Seed = bestSeed
		out.Tape = bestTape
		out.TraceHash = final.TraceHash
		out.Steps = final.Steps
		out.Minimised = true
		out.Trace = tail(final.Trace, 80)
		for _, v := range final.Violations {
			if v.Clause == rf.Violation.Clause && v.Key == rf.Violation.Key {
				out.Violation = v
			}
		}
		out.Note = fmt.Sprintf("minimised in %d attempts: %d -> %d steps, tape %d -> %d entries", attempts, rf.Steps, final.Steps, len(rf.Tape), len(bestTape))
	} else {
		out.Note = "minimisation result did not reproduce; original kept"
	}
	_ = bestHash
	_ = bestSteps
	_ = prop
	writeJSON(spec.Out, out)
}

// ---------------------------------------------------------------------------
// race reports (only in -race builds; GORACE=log_path=<prefix> set by the driver)

var raceLogOff int64

// collectRaces reads what the race detector wrote during the last run and
// turns every report into a violation (or, if no varlink frame is involved,
// into a harness error).
func collectRaces(res *props.RunResult) {
	if !sim.RaceBuild {
		return
	}
	prefix := os.Getenv("VERIF_RACELOG")
	if prefix == "" {
		return
	}
	path := fmt.Sprintf("%s.%d", prefix, os.Getpid())
	b, err := os.ReadFile(path)
	if err != nil || int64(len(b)) <= raceLogOff {
		return
	}
	text := string(b[raceLogOff:])
	raceLogOff = int64(len(b))
	seen := map[string]bool{}
	for _, rep := range props.SplitRaceReports(text) {
		key, ok := props.RaceKey(rep)
		if seen[key] {
			continue
		}
		seen[key] = true
		if !ok {
			if res.HarnessErr == "" {
				res.HarnessErr = "race report without a varlink frame (harness race):\n" + rep
			}
			continue
		}
		res.Violations = append(res.Violations, sim.Violation{Clause: "data-race", Key: key, Detail: rep})
	}
}
